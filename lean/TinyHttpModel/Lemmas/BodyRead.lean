/- helper lemmas (BodyRead): body readers deliver exactly the framed body -/
import TinyHttpModel.WireSpec
import TinyHttpModel.Lemmas.Loop
namespace TH

theorem take_isEmpty_false (B : Bytes) (n : Nat) (hB : B ≠ []) (hn : 1 ≤ n) : (B.take n).isEmpty = false := by
  cases B with
  | nil => contradiction
  | cons x xs => cases n with
    | zero => omega
    | succ k => simp

theorem take_take_drop (B : Bytes) (n total : Nat) (h : n ≤ total) :
    B.take n ++ (B.drop n).take (total - n) = B.take total := by
  have : total = n + (total - n) := by omega
  rw [this, List.take_add]; simp

theorem cursor_readUpTo (fuel : Nat) : ∀ (B bs : Bytes) (buf total : Nat) (fin : EndState),
    1 ≤ buf → total < fuel →
    Body.readUpTo fuel (.cursor B) buf total bs fin =
      if total ≤ B.length then (B.take total, none, .cursor (B.drop total), bs)
      else (B, some .eof, .cursor [], bs) := by
  induction fuel with
  | zero => intro B bs buf total fin hb hf; omega
  | succ fuel ih =>
    intro B bs buf total fin hb hf
    rw [Body.readUpTo]
    by_cases ht : total = 0
    · subst ht; simp
    · simp only [ht, if_false]
      by_cases hB : B = []
      · subst hB
        have : ¬ total ≤ 0 := by omega
        simp [Body.read, this]
      · have hl : B.length ≠ 0 := by simpa using hB
        have hemp : B.isEmpty = false := by simpa using hB
        simp only [Body.read, hemp, Bool.false_eq_true, if_false]
        generalize hn : min buf total = n
        have hn1 : 1 ≤ n := by omega
        have hn3 : n ≤ total := by omega
        simp only [take_isEmpty_false B n hB hn1, Bool.false_eq_true, if_false]
        have htl : (B.take n).length = min n B.length := by simp
        rw [ih (B.drop n) bs buf (total - (B.take n).length) fin hb (by omega)]
        rw [htl]
        have hdl : (B.drop n).length = B.length - n := by simp
        rw [hdl]
        by_cases hle : total ≤ B.length
        · have h1 : min n B.length = n := by omega
          have : total - n ≤ B.length - n := by omega
          rw [h1]
          simp only [this, hle, if_true, List.drop_drop, take_take_drop B n total hn3]
          have e3 : n + (total - n) = total := by omega
          rw [e3]
        · have : ¬ total - min n B.length ≤ B.length - n := by omega
          simp [this, hle]

theorem raw_readUpTo (fuel : Nat) : ∀ (bs : Bytes) (buf total : Nat),
    1 ≤ buf → total < fuel →
    Body.readUpTo fuel .raw buf total bs .eof =
      if total ≤ bs.length then (bs.take total, none, .raw, bs.drop total)
      else (bs, some .eof, .raw, []) := by
  induction fuel with
  | zero => intro bs buf total hb hf; omega
  | succ fuel ih =>
    intro B buf total hb hf
    rw [Body.readUpTo]
    by_cases ht : total = 0
    · subst ht; simp
    · simp only [ht, if_false]
      by_cases hB : B = []
      · subst hB
        have : ¬ total ≤ 0 := by omega
        simp [Body.read, this, EndState.stop]
      · have hl : B.length ≠ 0 := by simpa using hB
        simp only [Body.read]
        generalize hn : min buf total = n
        have hn1 : 1 ≤ n := by omega
        have hn3 : n ≤ total := by omega
        simp only [take_isEmpty_false B n hB hn1, Bool.false_eq_true, if_false]
        have htl : (B.take n).length = min n B.length := by simp
        rw [ih (B.drop n) buf (total - (B.take n).length) hb (by omega)]
        rw [htl]
        have hdl : (B.drop n).length = B.length - n := by simp
        rw [hdl]
        by_cases hle : total ≤ B.length
        · have h1 : min n B.length = n := by omega
          have : total - n ≤ B.length - n := by omega
          rw [h1]
          simp only [this, hle, if_true, List.drop_drop, take_take_drop B n total hn3]
          have e3 : n + (total - n) = total := by omega
          rw [e3]
        · have : ¬ total - min n B.length ≤ B.length - n := by omega
          simp [this, hle]

theorem done_readUpTo (bs : Bytes) (buf total fuel : Nat) (fin : EndState) (ht : 0 < total) (hf : 0 < fuel) :
    Body.readUpTo fuel .done buf total bs fin = ([], some .eof, .done, bs) := by
  cases fuel with
  | zero => omega
  | succ f =>
    have : total ≠ 0 := by omega
    simp [Body.readUpTo, this, Body.read]

theorem limited_read_step (B after : Bytes) (want : Nat) (fin : EndState) (hB : B ≠ []) :
    Body.read (.limited B.length) want (B ++ after) fin =
      (.data (B.take (min want B.length)), .limited (B.length - min want B.length),
        B.drop (min want B.length) ++ after) := by
  have hl : B.length ≠ 0 := by simpa using hB
  have hne : B ++ after ≠ [] := by simp [hB]
  have h1 : min (min want B.length) (B ++ after).length = min want B.length := by
    simp only [List.length_append]; omega
  have h2 : min want B.length ≤ B.length := by omega
  unfold Body.read
  simp only [hl, if_false]
  simp only [h1]
  simp [List.take_append_of_le_length h2, List.drop_append_of_le_length h2]

theorem limited_readUpTo (fuel : Nat) : ∀ (B after : Bytes) (buf total : Nat) (fin : EndState),
    1 ≤ buf → total < fuel →
    Body.readUpTo fuel (.limited B.length) buf total (B ++ after) fin =
      if total ≤ B.length then (B.take total, none, .limited (B.length - total), B.drop total ++ after)
      else (B, some .eof, .done, after) := by
  induction fuel with
  | zero => intro B after buf total fin hb hf; omega
  | succ fuel ih =>
    intro B after buf total fin hb hf
    rw [Body.readUpTo]
    by_cases ht : total = 0
    · subst ht; simp
    · simp only [ht, if_false]
      by_cases hB : B = []
      · subst hB
        have : ¬ total ≤ 0 := by omega
        simp [Body.read, this]
      · rw [limited_read_step B after _ fin hB]
        have hl : B.length ≠ 0 := by simpa using hB
        generalize hn : min (min buf total) B.length = n
        have hn1 : 1 ≤ n := by omega
        have hn2 : n ≤ B.length := by omega
        have hn3 : n ≤ total := by omega
        have hne : (B.take n).isEmpty = false := by
          cases B with
          | nil => contradiction
          | cons x xs => cases n with
            | zero => omega
            | succ k => simp
        simp only [hne, Bool.false_eq_true, if_false]
        have hlen : (B.drop n).length = B.length - n := by simp
        have := ih (B.drop n) after buf (total - (B.take n).length) fin hb (by simp; omega)
        rw [hlen] at this
        rw [this]
        have htl : (B.take n).length = n := by simp; omega
        rw [htl]
        by_cases hle : total ≤ B.length
        · have : total - n ≤ B.length - n := by omega
          simp only [this, hle, if_true, List.drop_drop]
          have e1 : List.take n B ++ List.take (total - n) (List.drop n B) = List.take total B := by
            have : total = n + (total - n) := by omega
            rw [this, List.take_add]; simp
          have e2 : B.length - n - (total - n) = B.length - total := by omega
          have e3 : n + (total - n) = total := by omega
          rw [e1, e2, e3]
        · have : ¬ total - n ≤ B.length - n := by omega
          simp [this, hle]

theorem framingOf_te (hs : List Header) (fr : Framing)
    (hte : (findHeader hs b!"Transfer-Encoding").isSome = true)
    (hup : ∀ h, findHeader hs b!"Connection" = some h → containsSub (lower h.value) b!"upgrade" = false)
    (hf : framingOf hs = .ok fr) :
    fr.kind = .chunked ∧ fr.bodyLength = none := by
  unfold framingOf at hf
  simp only [hte] at hf
  split at hf
  · cases hf
  · split at hf
    · cases hf
    · simp only [Except.ok.injEq] at hf
      subst hf
      cases hc : findHeader hs b!"Connection" with
      | none => simp
      | some h => simp [hup h hc]

theorem kind_cases (up ex : Bool) (n : Nat) :
    let k : BodyKind := if up then .upgrade
      else if n = 0 then .empty
      else if n ≤ Extracted.smallBodyLimit && !ex then .buffered n
      else .limited n
    (k = .upgrade ∨ (n = 0 ∧ k = .empty) ∨
       (0 < n ∧ n ≤ Extracted.smallBodyLimit ∧ ex = false ∧ k = .buffered n) ∨
       (0 < n ∧ k = .limited n)) := by
  intro k
  cases up
  · by_cases h0 : n = 0
    · simp [k, h0]
    · have : 0 < n := by omega
      by_cases hs : (decide (n ≤ Extracted.smallBodyLimit) && !ex) = true
      · simp only [k, h0, if_false, hs, if_true]
        simp at hs
        simp [this, hs]
      · simp only [k, h0, if_false, hs]
        simp [this]
  · simp [k]

theorem framingOf_cl (hs : List Header) (fr : Framing) (h : Header) (n : Nat)
    (hte : findHeader hs b!"Transfer-Encoding" = none)
    (hcl : findHeader hs b!"Content-Length" = some h)
    (hn : strictContentLength h.value = some n)
    (hf : framingOf hs = .ok fr) :
    fr.bodyLength = some n ∧
      (fr.kind = .upgrade ∨ (n = 0 ∧ fr.kind = .empty) ∨
       (0 < n ∧ n ≤ Extracted.smallBodyLimit ∧ fr.expectContinue = false ∧ fr.kind = .buffered n) ∨
       (0 < n ∧ fr.kind = .limited n)) := by
  unfold framingOf at hf
  simp only [hte, hcl, hn] at hf
  split at hf
  · cases hf
  · split at hf
    · cases hf
    · rename_i ex _
      simp only [Except.ok.injEq] at hf
      subst hf
      refine ⟨by simp, ?_⟩
      exact kind_cases _ _ _

theorem framingOf_none (hs : List Header) (fr : Framing)
    (hte : findHeader hs b!"Transfer-Encoding" = none)
    (hcl : findHeader hs b!"Content-Length" = none)
    (hf : framingOf hs = .ok fr) :
    fr.bodyLength = none ∧ (fr.kind = .empty ∨ fr.kind = .upgrade) := by
  unfold framingOf at hf
  simp only [hte, hcl] at hf
  split at hf
  · cases hf
  · split at hf
    · cases hf
    · simp only [Except.ok.injEq] at hf
      subst hf
      refine ⟨by simp, ?_⟩
      simp only [Option.isSome_none, Bool.false_eq_true, if_false]
      split <;> simp

theorem takeSizeField_cr (f rest : Bytes) (hf : ∀ b ∈ f, b ≠ 13 ∧ b ≠ 59) :
    takeSizeField (f ++ 13 :: rest) = some (f, false, rest) := by
  induction f with
  | nil => simp [takeSizeField]
  | cons b f ih =>
    have hb := hf b (by simp)
    have := ih (fun x hx => hf x (by simp [hx]))
    simp [takeSizeField, hb.1, hb.2, this]

theorem takeSizeField_semi (f rest : Bytes) (hf : ∀ b ∈ f, b ≠ 13 ∧ b ≠ 59) :
    takeSizeField (f ++ 59 :: rest) = some (f, true, rest) := by
  induction f with
  | nil => simp [takeSizeField]
  | cons b f ih =>
    have hb := hf b (by simp)
    have := ih (fun x hx => hf x (by simp [hx]))
    simp [takeSizeField, hb.1, hb.2, this]

theorem skipToCR_clean (e rest : Bytes) (he : ∀ b ∈ e, b ≠ 13) :
    skipToCR (e ++ 13 :: rest) = some rest := by
  induction e with
  | nil => simp [skipToCR]
  | cons b e ih =>
    have hb := he b (by simp)
    have := ih (fun x hx => he x (by simp [hx]))
    simp [skipToCR, hb, this]

theorem readChunkSize_line (f ext rest : Bytes) (n : Nat) (fin : EndState)
    (hf : f.all (fun b => b != 13 && b != 59 && b < 128) = true)
    (ht : trim f = f) (hn : usizeFromHex f = some n)
    (he : ext.isEmpty = true ∨ (ext.head? = some 59 ∧ ext.all (· != 13) = true)) :
    readChunkSize (f ++ ext ++ crlf ++ rest) fin = .ok n rest := by
  have hf1 : ∀ b ∈ f, b ≠ 13 ∧ b ≠ 59 := by
    intro b hb
    have := (List.all_eq_true.mp hf) b hb
    simp at this
    exact ⟨this.1.1, this.1.2⟩
  have hf2 : isUtf8Ascii f = true := by
    unfold isUtf8Ascii
    apply List.all_eq_true.mpr
    intro b hb
    have := (List.all_eq_true.mp hf) b hb
    simp at this
    simp [this.2]
  rcases he with he | ⟨he1, he2⟩
  · have : ext = [] := by simpa using he
    subst this
    have e : f ++ [] ++ crlf ++ rest = f ++ 13 :: (10 :: rest) := by simp [crlf]
    rw [e]
    unfold readChunkSize
    rw [takeSizeField_cr f _ hf1]
    simp [hf2, ht, hn]
  · cases ext with
    | nil => simp at he1
    | cons x e' =>
      simp at he1
      subst he1
      have he3 : ∀ b ∈ e', b ≠ 13 := by
        intro b hb
        have := (List.all_eq_true.mp he2) b (by simp [hb])
        simpa using this
      have e : f ++ 59 :: e' ++ crlf ++ rest = f ++ 59 :: (e' ++ 13 :: (10 :: rest)) := by simp [crlf]
      rw [e]
      unfold readChunkSize
      rw [takeSizeField_semi f _ hf1]
      simp [hf2, ht, hn, skipToCR_clean e' _ he3]

theorem read_chunked_none_ok (want : Nat) (bs r : Bytes) (c : Nat) (fin : EndState)
    (h : readChunkSize bs fin = .ok c r) (hc : c ≠ 0) :
    Body.read (.chunked none) want bs fin = Body.read (.chunked (some c)) want r fin := by
  cases c with
  | zero => contradiction
  | succ k =>
    unfold Body.read
    simp only [h]

theorem read_chunked_terminal (want : Nat) (bs after : Bytes) (fin : EndState)
    (h : readChunkSize bs fin = .ok 0 (13 :: 10 :: after)) :
    Body.read (.chunked none) want bs fin = (.eof, .done, after) := by
  unfold Body.read
  simp only [h, expectCRLF]

theorem read_chunked_inside (want : Nat) (d T : Bytes) (fin : EndState) (hd : d ≠ []) :
    Body.read (.chunked (some d.length)) want (d ++ crlf ++ T) fin =
      if want < d.length then
        (.data (d.take want), .chunked (some (d.length - want)), d.drop want ++ crlf ++ T)
      else (.data d, .chunked none, T) := by
  have hne : d ++ crlf ++ T ≠ [] := by simp [hd]
  have hlen : (d ++ crlf ++ T).length = d.length + 2 + T.length := by simp [crlf]; omega
  have htake : ∀ k, k ≤ d.length → (d ++ crlf ++ T).take k = d.take k := by
    intro k hk; rw [List.append_assoc, List.take_append_of_le_length hk]
  have hdrop : ∀ k, k ≤ d.length → (d ++ crlf ++ T).drop k = d.drop k ++ crlf ++ T := by
    intro k hk; rw [List.append_assoc, List.drop_append_of_le_length hk, List.append_assoc]
  generalize d ++ crlf ++ T = S at *
  unfold Body.read
  simp only []
  by_cases hw : want < d.length
  · have h1 : min want S.length = want := by omega
    have h2 : want ≤ d.length := by omega
    simp only [hw, if_true, h1, htake _ h2, hdrop _ h2]
  · have h1 : min d.length S.length = d.length := by omega
    simp only [hw, if_false, h1, if_true, htake _ (Nat.le_refl _), hdrop _ (Nat.le_refl _)]
    simp [crlf, expectCRLF]

/-! ## chunked bodies -/

section Chunked
open Spec

/-- hypotheses on the terminal chunk's size field. -/
def ZeroOk (zero : Bytes) : Prop :=
  usizeFromHex zero = some 0 ∧ zero.all (fun b => b != 13 && b != 59 && b < 128) = true ∧ trim zero = zero

/-- the decoder state `ic`, the remaining stream `S` and the remaining payload `P` are in step. -/
inductive ChunkPos (zero after : Bytes) : Option Nat → Bytes → Bytes → Prop
  | line (cs : List SentChunk) (hcs : ∀ c ∈ cs, wfChunk c = true) :
      ChunkPos zero after none (renderChunked cs zero ++ after) (chunkPayload cs)
  | inside (d : Bytes) (cs : List SentChunk) (hd : d ≠ []) (hcs : ∀ c ∈ cs, wfChunk c = true) :
      ChunkPos zero after (some d.length) (d ++ crlf ++ (renderChunked cs zero ++ after)) (d ++ chunkPayload cs)

theorem renderChunked_nil (zero after : Bytes) :
    renderChunked [] zero ++ after = zero ++ [] ++ crlf ++ (13 :: 10 :: after) := by
  simp [renderChunked, crlf]

theorem renderChunked_cons (c : SentChunk) (cs : List SentChunk) (zero after : Bytes) :
    renderChunked (c :: cs) zero ++ after =
      c.sizeField ++ c.ext ++ crlf ++ (c.data ++ crlf ++ (renderChunked cs zero ++ after)) := by
  simp [renderChunked, renderChunk]

theorem chunkPayload_cons (c : SentChunk) (cs : List SentChunk) :
    chunkPayload (c :: cs) = c.data ++ chunkPayload cs := by
  simp [chunkPayload]

theorem wfChunk_parts (c : SentChunk) (h : wfChunk c = true) :
    c.data ≠ [] ∧ usizeFromHex c.sizeField = some c.data.length ∧
    c.sizeField.all (fun b => b != 13 && b != 59 && b < 128) = true ∧ trim c.sizeField = c.sizeField ∧
    (c.ext.isEmpty = true ∨ (c.ext.head? = some 59 ∧ c.ext.all (· != 13) = true)) := by
  unfold wfChunk at h
  simp only [Bool.and_eq_true, Bool.or_eq_true, Bool.not_eq_true', beq_iff_eq] at h
  obtain ⟨⟨⟨⟨h1, h2⟩, h3⟩, h4⟩, h5⟩ := h
  refine ⟨by simpa using h1, h2, h3, h4, h5⟩

theorem chunk_read_inside_step (zero after : Bytes) (d : Bytes) (cs : List SentChunk) (hd : d ≠ [])
    (hcs : ∀ c ∈ cs, wfChunk c = true) (want : Nat) (fin : EndState) (hw : 1 ≤ want) :
    ∃ n ic' S', 1 ≤ n ∧ n ≤ want ∧ n ≤ (d ++ chunkPayload cs).length ∧
      Body.read (.chunked (some d.length)) want (d ++ crlf ++ (renderChunked cs zero ++ after)) fin =
        (.data ((d ++ chunkPayload cs).take n), .chunked ic', S') ∧
      ChunkPos zero after ic' S' ((d ++ chunkPayload cs).drop n) ∧
      S'.length + n ≤ (d ++ crlf ++ (renderChunked cs zero ++ after)).length := by
  have hdl : 1 ≤ d.length := by
    cases d with
    | nil => contradiction
    | cons _ _ => simp
  rw [read_chunked_inside want d _ fin hd]
  by_cases hlt : want < d.length
  · have hle : want ≤ d.length := by omega
    refine ⟨want, some (d.drop want).length, d.drop want ++ crlf ++ (renderChunked cs zero ++ after),
      hw, Nat.le_refl _, by simp; omega, ?_, ?_, ?_⟩
    · simp [hlt, List.take_append_of_le_length hle]
    · rw [List.drop_append_of_le_length hle]
      exact ChunkPos.inside _ cs (by intro h; have := congrArg List.length h; simp at this; omega) hcs
    · simp; omega
  · refine ⟨d.length, none, renderChunked cs zero ++ after, hdl, by omega, by simp, ?_, ?_, ?_⟩
    · simp [hlt]
    · simp only [List.drop_left]
      exact ChunkPos.line cs hcs
    · simp only [List.length_append]; omega

theorem chunk_read_step (zero after : Bytes) (hz : ZeroOk zero) (ic : Option Nat) (S P : Bytes)
    (hp : ChunkPos zero after ic S P) (want : Nat) (fin : EndState) (hw : 1 ≤ want) :
    (P = [] ∧ Body.read (.chunked ic) want S fin = (.eof, .done, after)) ∨
    (∃ n ic' S', 1 ≤ n ∧ n ≤ want ∧ n ≤ P.length ∧
      Body.read (.chunked ic) want S fin = (.data (P.take n), .chunked ic', S') ∧
      ChunkPos zero after ic' S' (P.drop n) ∧ S'.length + n ≤ S.length) := by
  cases hp with
  | inside d cs hd hcs =>
    right
    exact chunk_read_inside_step zero after d cs hd hcs want fin hw
  | line cs hcs =>
    cases cs with
    | nil =>
      left
      refine ⟨by simp [chunkPayload], ?_⟩
      apply read_chunked_terminal
      rw [renderChunked_nil]
      exact readChunkSize_line zero [] _ 0 fin hz.2.1 hz.2.2 hz.1 (Or.inl rfl)
    | cons c cs =>
      right
      obtain ⟨h1, h2, h3, h4, h5⟩ := wfChunk_parts c (hcs c (by simp))
      have hcs' : ∀ x ∈ cs, wfChunk x = true := fun x hx => hcs x (by simp [hx])
      have hdl : c.data.length ≠ 0 := by simpa using h1
      have hsz := readChunkSize_line c.sizeField c.ext
        (c.data ++ crlf ++ (renderChunked cs zero ++ after)) c.data.length fin h3 h4 h2 h5
      rw [renderChunked_cons, chunkPayload_cons, read_chunked_none_ok want _ _ _ fin hsz hdl]
      obtain ⟨n, ic', S', a1, a2, a3, a4, a5, a6⟩ :=
        chunk_read_inside_step zero after c.data cs h1 hcs' want fin hw
      refine ⟨n, ic', S', a1, a2, a3, a4, a5, ?_⟩
      simp only [List.length_append] at a6 ⊢
      omega


theorem chunked_readUpTo (zero after : Bytes) (hz : ZeroOk zero) (buf : Nat) (fin : EndState) (hb : 1 ≤ buf)
    (fuel : Nat) : ∀ (ic : Option Nat) (S P : Bytes) (total : Nat),
    ChunkPos zero after ic S P → total < fuel →
    (Body.readUpTo fuel (.chunked ic) buf total S fin).1 = P.take total ∧
    (total ≤ P.length →
      ∃ ic' S', Body.readUpTo fuel (.chunked ic) buf total S fin = (P.take total, none, .chunked ic', S') ∧
        ChunkPos zero after ic' S' (P.drop total)) ∧
    (P.length < total →
      Body.readUpTo fuel (.chunked ic) buf total S fin = (P, some .eof, .done, after)) := by
  induction fuel with
  | zero => intro ic S P total hp hf; omega
  | succ fuel ih =>
    intro ic S P total hp hf
    rw [Body.readUpTo]
    by_cases ht : total = 0
    · subst ht
      refine ⟨by simp, fun _ => ⟨ic, S, by simp, by simpa using hp⟩, fun h => by omega⟩
    · simp only [ht, if_false]
      rcases chunk_read_step zero after hz ic S P hp (min buf total) fin (by omega) with
        ⟨hP, hr⟩ | ⟨n, ic', S', h1, h2, h3, hr, hp', _⟩
      · subst hP
        rw [hr]
        refine ⟨by simp, fun h => by simp at h; omega, fun _ => rfl⟩
      · rw [hr]
        have hPne : P ≠ [] := by intro h; subst h; simp at h3; omega
        have hne : (P.take n).isEmpty = false := take_isEmpty_false P n hPne h1
        have htl : (P.take n).length = n := by simp; omega
        simp only [hne, Bool.false_eq_true, if_false, htl]
        have hnt : n ≤ total := by omega
        obtain ⟨i1, i2, i3⟩ := ih ic' S' (P.drop n) (total - n) hp' (by omega)
        have hdl : (P.drop n).length = P.length - n := by simp
        refine ⟨?_, ?_, ?_⟩
        · show P.take n ++ (Body.readUpTo fuel (.chunked ic') buf (total - n) S' fin).1 = _
          rw [i1, take_take_drop P n total hnt]
        · intro hle
          obtain ⟨ic'', S'', e, hp''⟩ := i2 (by omega)
          refine ⟨ic'', S'', ?_, ?_⟩
          · rw [e, take_take_drop P n total hnt]
          · have : n + (total - n) = total := by omega
            simpa [List.drop_drop, this] using hp''
        · intro hlt
          rw [i3 (by omega)]
          simp

theorem chunked_drain (zero after : Bytes) (hz : ZeroOk zero) (fin : EndState)
    (fuel : Nat) : ∀ (ic : Option Nat) (S P : Bytes),
    ChunkPos zero after ic S P → S.length + 1 ≤ fuel →
    Body.drain fuel (.chunked ic) S fin = some after := by
  induction fuel with
  | zero => intro ic S P hp hf; omega
  | succ fuel ih =>
    intro ic S P hp hf
    rw [Body.drain]
    rcases chunk_read_step zero after hz ic S P hp 4096 fin (by omega) with
      ⟨_, hr⟩ | ⟨n, ic', S', h1, _, _, hr, hp', hl⟩
    · rw [hr]
    · rw [hr]
      exact ih ic' S' _ hp' (by omega)

end Chunked

/-! ## `handle`: the stream position after a request was handled -/

/-- the read phase of `handle` (after the optional empty-buffer read). -/
def readPhase (a : Action) (body : Body) (bs : Bytes) (fin : EndState) : Bytes × Option ReadOut × Body × Bytes :=
  if a.asReaderCalls > 0 && a.readTotal > 0 then
    Body.readUpTo (a.readTotal + 1) body (max a.bufSize 1) a.readTotal bs fin
  else ([], none, body, bs)

theorem readPhase_eq_handleRead0 (a : Action) (body : Body) (bs : Bytes) (fin : EndState) :
    readPhase a body bs fin = handleRead0 a body bs fin := rfl

/-- `handle`'s resulting stream position, from the outcome `(body', bs')` of the optional
    empty-buffer read (`handleZR`) and the read phase run from there. -/
theorem handle_offset (s : St) (h : Head) (fr : Framing) (last : Bool) (a : Action) (body body' : Body)
    (bs bs' after : Bytes) (fin : EndState)
    (hzr : handleZR a body bs fin = some (body', bs'))
    (hnp : (readPhase a body' bs' fin).2.1 ≠ some .pending)
    (hdr : Body.drain ((readPhase a body' bs' fin).2.2.2.length + 2) (readPhase a body' bs' fin).2.2.1
      (readPhase a body' bs' fin).2.2.2 fin = some after) :
    (handle s h fr last a body bs fin).2.1 = after ∧ (handle s h fr last a body bs fin).2.2 = false := by
  rw [handle_eq]
  have hr : handleRead a body bs fin = readPhase a body' bs' fin := by
    unfold handleRead; rw [hzr]; rfl
  rw [hr]
  generalize readPhase a body' bs' fin = rp at hnp hdr ⊢
  obtain ⟨got, rend, body1, bs1⟩ := rp
  simp only [] at hnp hdr ⊢
  rw [hdr]
  cases rend with
  | none => exact ⟨rfl, rfl⟩
  | some o =>
    cases o with
    | pending => exact absurd rfl hnp
    | data d => exact ⟨rfl, rfl⟩
    | eof => exact ⟨rfl, rfl⟩
    | err => exact ⟨rfl, rfl⟩


theorem readPhase_cases (a : Action) (body : Body) (bs : Bytes) (fin : EndState) :
    readPhase a body bs fin = ([], none, body, bs) ∨
    readPhase a body bs fin = Body.readUpTo (a.readTotal + 1) body (max a.bufSize 1) a.readTotal bs fin := by
  unfold readPhase
  split
  · exact Or.inr rfl
  · exact Or.inl rfl

theorem drain_limited (fuel r : Nat) (bs : Bytes) (fin : EndState) (hf : 0 < fuel) (hr : r ≤ bs.length) :
    Body.drain fuel (.limited r) bs fin = some (bs.drop r) := by
  cases fuel with
  | zero => omega
  | succ f => simp [Body.drain, hr]

theorem drain_done (fuel : Nat) (bs : Bytes) (fin : EndState) :
    Body.drain fuel .done bs fin = some bs := by
  cases fuel <;> simp [Body.drain]

theorem drain_cursor (fuel : Nat) (d bs : Bytes) (fin : EndState) :
    Body.drain fuel (.cursor d) bs fin = some bs := by
  cases fuel <;> simp [Body.drain]

/-! ### the empty-buffer read (`zeroReadEffect`, `handleZR`) -/

theorem zeroReadEffect_done (bs : Bytes) (fin : EndState) : zeroReadEffect .done bs fin = some (.done, bs) := rfl
theorem zeroReadEffect_cursor (d bs : Bytes) (fin : EndState) :
    zeroReadEffect (.cursor d) bs fin = some (.cursor d, bs) := rfl
theorem zeroReadEffect_raw (bs : Bytes) (fin : EndState) : zeroReadEffect .raw bs fin = some (.raw, bs) := rfl
theorem zeroReadEffect_failed (bs : Bytes) (fin : EndState) : zeroReadEffect .failed bs fin = some (.failed, bs) := rfl

/-- a streamed Content-Length body that is entirely available: the empty-buffer read discards it. -/
theorem zeroReadEffect_limited (B after : Bytes) (fin : EndState) :
    zeroReadEffect (.limited B.length) (B ++ after) fin = some (.done, after) := by
  unfold zeroReadEffect
  simp only []
  rw [drain_limited _ _ _ fin (by omega) (by simp)]
  simp

/-- a well-formed chunked body: the empty-buffer read discards it up to and including the terminal chunk. -/
theorem zeroReadEffect_chunked (cs : List Spec.SentChunk) (zero after : Bytes) (fin : EndState)
    (hcs : ∀ c ∈ cs, Spec.wfChunk c = true) (hz : ZeroOk zero) :
    zeroReadEffect (.chunked none) (Spec.renderChunked cs zero ++ after) fin = some (.done, after) := by
  unfold zeroReadEffect
  simp only []
  rw [chunked_drain zero after hz fin _ none _ _ (ChunkPos.line cs hcs) (by omega)]

/-- without an empty-buffer read, or on a reader that is not fused, `handleZR` is the identity. -/
theorem handleZR_id (a : Action) (body : Body) (bs : Bytes) (fin : EndState)
    (hb : zeroReadEffect body bs fin = some (body, bs)) : handleZR a body bs fin = some (body, bs) := by
  unfold handleZR; split
  · exact hb
  · rfl

theorem handleZR_cases (a : Action) (body : Body) (bs : Bytes) (fin : EndState) :
    handleZR a body bs fin = some (body, bs) ∨ handleZR a body bs fin = zeroReadEffect body bs fin := by
  unfold handleZR; split
  · exact Or.inr rfl
  · exact Or.inl rfl

/-! ### the read phase followed by the discard, per reader -/

theorem phase_limited (a : Action) (B after : Bytes) (fin : EndState) :
    (readPhase a (.limited B.length) (B ++ after) fin).2.1 ≠ some .pending ∧
    Body.drain ((readPhase a (.limited B.length) (B ++ after) fin).2.2.2.length + 2)
      (readPhase a (.limited B.length) (B ++ after) fin).2.2.1
      (readPhase a (.limited B.length) (B ++ after) fin).2.2.2 fin = some after := by
  refine ⟨?_, ?_⟩
  · rcases readPhase_cases a (.limited B.length) (B ++ after) fin with e | e
    · rw [e]; simp
    · rw [e, limited_readUpTo _ B after _ _ fin (by omega) (by omega)]
      split <;> simp
  · rcases readPhase_cases a (.limited B.length) (B ++ after) fin with e | e
    · rw [e]
      simp only []
      rw [drain_limited _ _ _ fin (by omega) (by simp)]
      simp
    · rw [e, limited_readUpTo _ B after _ _ fin (by omega) (by omega)]
      split
      · rename_i hle
        simp only []
        rw [drain_limited _ _ _ fin (by omega) (by simp)]
        have : (B.drop a.readTotal).length = B.length - a.readTotal := by simp
        rw [← this, List.drop_left]
      · simp only []
        rw [drain_done]

theorem phase_cursor (a : Action) (B after : Bytes) (fin : EndState) :
    (readPhase a (.cursor B) after fin).2.1 ≠ some .pending ∧
    Body.drain ((readPhase a (.cursor B) after fin).2.2.2.length + 2)
      (readPhase a (.cursor B) after fin).2.2.1
      (readPhase a (.cursor B) after fin).2.2.2 fin = some after := by
  refine ⟨?_, ?_⟩
  · rcases readPhase_cases a (.cursor B) after fin with e | e
    · rw [e]; simp
    · rw [e, cursor_readUpTo _ B after _ _ fin (by omega) (by omega)]
      split <;> simp
  · rcases readPhase_cases a (.cursor B) after fin with e | e
    · rw [e]
      simp only []
      rw [drain_cursor]
    · rw [e, cursor_readUpTo _ B after _ _ fin (by omega) (by omega)]
      split
      · simp only []
        rw [drain_cursor]
      · simp only []
        rw [drain_cursor]

theorem phase_done (a : Action) (after : Bytes) (fin : EndState) :
    (readPhase a .done after fin).2.1 ≠ some .pending ∧
    Body.drain ((readPhase a .done after fin).2.2.2.length + 2)
      (readPhase a .done after fin).2.2.1
      (readPhase a .done after fin).2.2.2 fin = some after := by
  have key : readPhase a .done after fin = ([], none, .done, after) ∨
      readPhase a .done after fin = ([], some .eof, .done, after) := by
    unfold readPhase
    split
    · rename_i hc
      simp at hc
      right
      exact done_readUpTo after _ _ _ fin hc.2 (by omega)
    · exact Or.inl rfl
  refine ⟨?_, ?_⟩
  · rcases key with e | e <;> rw [e] <;> simp
  · rcases key with e | e <;> rw [e] <;> simp only [] <;> rw [drain_done]

theorem phase_chunked (a : Action) (cs : List Spec.SentChunk) (zero after : Bytes) (fin : EndState)
    (hcs : ∀ c ∈ cs, Spec.wfChunk c = true) (hz : ZeroOk zero) :
    (readPhase a (.chunked none) (Spec.renderChunked cs zero ++ after) fin).2.1 ≠ some .pending ∧
    Body.drain ((readPhase a (.chunked none) (Spec.renderChunked cs zero ++ after) fin).2.2.2.length + 2)
      (readPhase a (.chunked none) (Spec.renderChunked cs zero ++ after) fin).2.2.1
      (readPhase a (.chunked none) (Spec.renderChunked cs zero ++ after) fin).2.2.2 fin = some after := by
  have hp0 := ChunkPos.line (zero := zero) (after := after) cs hcs
  have key : (∃ ic S P, ChunkPos zero after ic S P ∧
        readPhase a (.chunked none) (Spec.renderChunked cs zero ++ after) fin = (Spec.chunkPayload cs |>.take a.readTotal, none, .chunked ic, S)) ∨
      readPhase a (.chunked none) (Spec.renderChunked cs zero ++ after) fin =
        (Spec.chunkPayload cs, some .eof, .done, after) ∨
      readPhase a (.chunked none) (Spec.renderChunked cs zero ++ after) fin =
        ([], none, .chunked none, Spec.renderChunked cs zero ++ after) := by
    rcases readPhase_cases a (.chunked none) (Spec.renderChunked cs zero ++ after) fin with e | e
    · exact Or.inr (Or.inr e)
    · obtain ⟨_, i2, i3⟩ := chunked_readUpTo zero after hz (max a.bufSize 1) fin (by omega)
        (a.readTotal + 1) none _ _ a.readTotal hp0 (by omega)
      by_cases hle : a.readTotal ≤ (Spec.chunkPayload cs).length
      · obtain ⟨ic', S', e', hp'⟩ := i2 hle
        exact Or.inl ⟨ic', S', _, hp', by rw [e, e']⟩
      · exact Or.inr (Or.inl (by rw [e, i3 (by omega)]))
  refine ⟨?_, ?_⟩
  · rcases key with ⟨ic, S, P, _, e⟩ | e | e <;> rw [e] <;> simp
  · rcases key with ⟨ic, S, P, hp, e⟩ | e | e
    · rw [e]
      simp only []
      exact chunked_drain zero after hz fin _ ic S P hp (by omega)
    · rw [e]
      simp only []
      rw [drain_done]
    · rw [e]
      simp only []
      exact chunked_drain zero after hz fin _ none _ _ hp0 (by omega)

/-! ### `handle` per reader -/

theorem handle_done (s : St) (h : Head) (fr : Framing) (last : Bool) (a : Action)
    (after : Bytes) (fin : EndState) :
    (handle s h fr last a .done after fin).2.1 = after ∧
    (handle s h fr last a .done after fin).2.2 = false :=
  handle_offset s h fr last a .done .done after after after fin (handleZR_id a _ _ fin rfl)
    (phase_done a after fin).1 (phase_done a after fin).2

theorem handle_cursor (s : St) (h : Head) (fr : Framing) (last : Bool) (a : Action)
    (B after : Bytes) (fin : EndState) :
    (handle s h fr last a (.cursor B) after fin).2.1 = after ∧
    (handle s h fr last a (.cursor B) after fin).2.2 = false :=
  handle_offset s h fr last a (.cursor B) (.cursor B) after after after fin (handleZR_id a _ _ fin rfl)
    (phase_cursor a B after fin).1 (phase_cursor a B after fin).2

theorem handle_limited (s : St) (h : Head) (fr : Framing) (last : Bool) (a : Action)
    (B after : Bytes) (fin : EndState) :
    (handle s h fr last a (.limited B.length) (B ++ after) fin).2.1 = after ∧
    (handle s h fr last a (.limited B.length) (B ++ after) fin).2.2 = false := by
  rcases handleZR_cases a (.limited B.length) (B ++ after) fin with e | e
  · exact handle_offset s h fr last a _ _ _ _ after fin e (phase_limited a B after fin).1
      (phase_limited a B after fin).2
  · rw [zeroReadEffect_limited] at e
    exact handle_offset s h fr last a _ _ _ _ after fin e (phase_done a after fin).1 (phase_done a after fin).2

theorem handle_chunked (s : St) (h : Head) (fr : Framing) (last : Bool) (a : Action)
    (cs : List Spec.SentChunk) (zero after : Bytes) (fin : EndState)
    (hcs : ∀ c ∈ cs, Spec.wfChunk c = true) (hz : ZeroOk zero) :
    (handle s h fr last a (.chunked none) (Spec.renderChunked cs zero ++ after) fin).2.1 = after ∧
    (handle s h fr last a (.chunked none) (Spec.renderChunked cs zero ++ after) fin).2.2 = false := by
  rcases handleZR_cases a (.chunked none) (Spec.renderChunked cs zero ++ after) fin with e | e
  · exact handle_offset s h fr last a _ _ _ _ after fin e (phase_chunked a cs zero after fin hcs hz).1
      (phase_chunked a cs zero after fin hcs hz).2
  · rw [zeroReadEffect_chunked cs zero after fin hcs hz] at e
    exact handle_offset s h fr last a _ _ _ _ after fin e (phase_done a after fin).1 (phase_done a after fin).2

end TH
