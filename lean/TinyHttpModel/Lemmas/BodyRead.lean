/- helper lemmas (BodyRead) -/
import TinyHttpModel.WireSpec
namespace TH
end TH
