/- helper lemmas for Lts.Par (5): every step preserves the invariant -/
import TinyHttpModel.Lemmas.ParInvDefs

namespace TH
namespace Lts.Par

/-! ### the steps, inverted -/

def beginReq (r : PReq) : PReq := { r with stage := .cont, toEmit := contBytes r.head r.fr r.act }

theorem step_begin_inv {s s' : State} {i : Nat} (h : step s (.begin i) = some s') :
    ∃ r, s.reqs[i]? = some r ∧ r.stage = .fresh ∧ r.owner = .app ∧ s' = setReq s i (beginReq r) := by
  simp only [step] at h
  cases hr : s.reqs[i]? with
  | none => simp [hr] at h
  | some r =>
    simp only [hr] at h
    split at h
    · rename_i hc
      simp only [Option.some.injEq] at h
      simp only [Bool.and_eq_true, beq_iff_eq] at hc
      exact ⟨r, rfl, hc.1, hc.2, h.symm⟩
    · cases h

def writeReq (r : PReq) (k : Nat) : PReq := { r with toEmit := r.toEmit.drop k }

theorem step_write_inv {s s' : State} {i k : Nat} (h : step s (.write i k) = some s') :
    ∃ r q, s.reqs[i]? = some r ∧ (r.stage = .cont ∨ r.stage = .answering) ∧
      Seq.step s.seq (.write i (r.toEmit.take k)) = some q ∧
      s' = { s with reqs := s.reqs.set i (writeReq r k), seq := q } := by
  simp only [step] at h
  cases hr : s.reqs[i]? with
  | none => simp [hr] at h
  | some r =>
    simp only [hr] at h
    split at h
    · rename_i hc
      simp only [Bool.and_eq_true, Bool.or_eq_true, beq_iff_eq] at hc
      simp only [seqStep, Option.map_map] at h
      cases hq : Seq.step s.seq (.write i (r.toEmit.take k)) with
      | none => simp [hq] at h
      | some q =>
        simp only [hq, Option.map_some, Option.some.injEq] at h
        exact ⟨r, q, rfl, hc.1.1, hq, h.symm⟩
    · cases h

def readsReq (s : State) (r : PReq) : PReq :=
  { r with got := (handlerReads r.act r.body s.rest s.fin).1, readEnd := (handlerReads r.act r.body s.rest s.fin).2.1,
           body := (handlerReads r.act r.body s.rest s.fin).2.2.1,
           stage := if (handlerReads r.act r.body s.rest s.fin).2.1 == .pending then Stage.stuck else Stage.readDone }

theorem step_reads_inv {s s' : State} {i : Nat} (h : step s (.reads i) = some s') :
    ∃ r, s.reqs[i]? = some r ∧ r.stage = .cont ∧ r.toEmit = [] ∧
      s' = { s with reqs := s.reqs.set i (readsReq s r), rest := (handlerReads r.act r.body s.rest s.fin).2.2.2 } := by
  simp only [step] at h
  cases hr : s.reqs[i]? with
  | none => simp [hr] at h
  | some r =>
    simp only [hr] at h
    split at h
    · rename_i hc
      simp only [Option.some.injEq] at h
      simp only [Bool.and_eq_true, beq_iff_eq, List.isEmpty_iff] at hc
      exact ⟨r, rfl, hc.1, hc.2, h.symm⟩
    · cases h

def finishReq (r : PReq) : PReq :=
  { r with stage := .answering, toEmit := if r.owner == .conn then r.fixed else finishBytes r.head r.act }

theorem step_finish_inv {s s' : State} {i : Nat} (h : step s (.finish i) = some s') :
    ∃ r, s.reqs[i]? = some r ∧ r.stage = .readDone ∧
      ((∃ rest', r.owner = .app ∧ Body.drain (s.rest.length + 2) r.body s.rest s.fin = some rest' ∧
          s' = { s with reqs := s.reqs.set i { finishReq r with body := .done }, rest := rest' }) ∨
        s' = setReq s i (finishReq r)) := by
  simp only [step] at h
  cases hr : s.reqs[i]? with
  | none => simp [hr] at h
  | some r =>
    simp only [hr] at h
    split at h
    · rename_i hc
      simp only [beq_iff_eq] at hc
      refine ⟨r, rfl, hc, ?_⟩
      split at h
      · rename_i hc2
        simp only [Bool.and_eq_true, beq_iff_eq] at hc2
        split at h
        · rename_i rest' hd
          simp only [Option.some.injEq] at h
          exact Or.inl ⟨rest', hc2.1, hd, h.symm⟩
        · simp only [Option.some.injEq] at h
          exact Or.inr h.symm
      · simp only [Option.some.injEq] at h
        exact Or.inr h.symm
    · cases h

theorem step_drop_inv {s s' : State} {i : Nat} (h : step s (.drop i) = some s') :
    ∃ r, s.reqs[i]? = some r ∧ r.stage = .answering ∧ r.toEmit = [] ∧
      ((∃ rest' q, Body.drain (s.rest.length + 2) r.body s.rest s.fin = some rest' ∧
          Seq.step s.seq (.drop i) = some q ∧
          s' = { s with reqs := s.reqs.set i { r with stage := .gone, body := .done }, rest := rest', seq := q }) ∨
        (Body.drain (s.rest.length + 2) r.body s.rest s.fin = none ∧
          s' = { s with reqs := s.reqs.set i { r with stage := .stuck }, rest := [] })) := by
  simp only [step] at h
  cases hr : s.reqs[i]? with
  | none => simp [hr] at h
  | some r =>
    simp only [hr] at h
    split at h
    · rename_i hc
      simp only [Bool.and_eq_true, beq_iff_eq, List.isEmpty_iff] at hc
      refine ⟨r, rfl, hc.1, hc.2, ?_⟩
      split at h
      · rename_i rest' hd
        simp only [seqStep, Option.map_map] at h
        cases hq : Seq.step s.seq (.drop i) with
        | none => simp [hq] at h
        | some q =>
          simp only [hq, Option.map_some, Option.some.injEq] at h
          exact Or.inl ⟨rest', q, hd, rfl, h.symm⟩
      · rename_i hd
        simp only [Option.some.injEq] at h
        exact Or.inr ⟨hd, h.symm⟩
    · cases h

/-! ### helpers -/

theorem writer_exists {T : Bytes} {D : List Delivered} {s : State} (hinv : Inv T D s) {i : Nat} {r : PReq}
    (hr : s.reqs[i]? = some r) : ∃ w, s.seq.writers[i]? = some w := by
  have hi : i < s.reqs.length := by
    rcases Nat.lt_or_ge i s.reqs.length with h | h
    · exact h
    · rw [List.getElem?_eq_none h] at hr; cases hr
  rw [hinv.len] at hi
  exact ⟨s.seq.writers[i], List.getElem?_eq_getElem hi⟩

theorem not_dropped {T : Bytes} {D : List Delivered} {s : State} (hinv : Inv T D s) {i : Nat} {r : PReq} {w : Seq.W}
    (hr : s.reqs[i]? = some r) (hw : s.seq.writers[i]? = some w) (hne : r.stage ≠ .gone) : w.dropped = false := by
  cases hd : w.dropped with
  | false => rfl
  | true => exact absurd ((hinv.dropG i r w hr hw).1 hd) hne

theorem getD_of_getElem? {l : List Seq.W} {i : Nat} {w : Seq.W} (h : l[i]? = some w) : l.getD i {} = w := by
  simp [List.getD, h]

theorem seq_write_inv {q q' : Seq.State} {i : Nat} {bs : List Nat} {w : Seq.W} (hw : q.writers[i]? = some w)
    (h : Seq.step q (.write i bs) = some q') :
    q'.writers = q.writers.set i { w with submitted := w.submitted ++ bs } := by
  simp only [Seq.step] at h
  split at h
  · simp only [Option.some.injEq] at h; subst h
    simp only [getD_of_getElem? hw]
  · cases h

theorem seq_drop_inv {q q' : Seq.State} {i : Nat} {w : Seq.W} (hw : q.writers[i]? = some w)
    (h : Seq.step q (.drop i) = some q') :
    q'.writers = q.writers.set i { w with dropped := true } := by
  simp only [Seq.step] at h
  split at h
  · simp only [Option.some.injEq] at h; subst h
    simp only [getD_of_getElem? hw]
  · cases h

/-! ### preservation, label by label -/

theorem inv_begin {T : Bytes} {D : List Delivered} {s s' : State} (hinv : Inv T D s) {i : Nat}
    (h : step s (.begin i) = some s') : Inv T D s' := by
  obtain ⟨r, hr, hst, hown, rfl⟩ := step_begin_inv h
  obtain ⟨w, hw⟩ := writer_exists hinv hr
  have hnd := not_dropped hinv hr hw (by rw [hst]; decide)
  refine inv_set hinv i r (beginReq r) w w hr hw rfl
    (by simp only [setReq, set_self_of_getElem? _ _ _ hw]) rfl rfl rfl rfl ?_ ?_ ?_ (Or.inl rfl) ?_ ?_ ?_
  · exact ⟨fun _ => hown, fun h => by simp [beginReq] at h, fun h => by simp [beginReq] at h⟩
  · exact fun h => h
  · simp [beginReq, hnd]
  · simp [fOut, futEmit, beginReq, hst, setReq]; try rfl
  · simp [futDel, beginReq, hst, setReq]
  · simp [futAfter, beginReq, hst, setReq]; try rfl

theorem inv_write {T : Bytes} {D : List Delivered} {s s' : State} (hinv : Inv T D s) {i k : Nat}
    (h : step s (.write i k) = some s') : Inv T D s' := by
  obtain ⟨r, q, hr, hst, hq, rfl⟩ := step_write_inv h
  obtain ⟨w, hw⟩ := writer_exists hinv hr
  have hq' := seq_write_inv hw hq
  have hg := hinv.dropG i r w hr hw
  refine inv_set hinv i r (writeReq r k) w { w with submitted := w.submitted ++ r.toEmit.take k } hr hw rfl
    hq' rfl rfl rfl rfl ?_ ?_ ?_ (Or.inl rfl) ?_ ?_ ?_
  · exact hinv.ok i r hr
  · exact fun h => h
  · exact hg
  · rcases hst with hst | hst
    · simp only [fOut, futEmit, writeReq, hst, List.append_assoc]
      rw [← List.append_assoc (List.take k r.toEmit), List.take_append_drop]
    · simp only [fOut, futEmit, writeReq, hst, List.append_assoc, List.take_append_drop]
  · rcases hst with hst | hst <;> simp [futDel, writeReq, hst, deliveredOf]
  · rcases hst with hst | hst <;> simp [futAfter, writeReq, hst]

theorem inv_reads {T : Bytes} {D : List Delivered} {s s' : State} (hinv : Inv T D s) {i : Nat}
    (h : step s (.reads i) = some s') : Inv T D s' := by
  obtain ⟨r, hr, hst, hte, rfl⟩ := step_reads_inv h
  obtain ⟨w, hw⟩ := writer_exists hinv hr
  have hnd := not_dropped hinv hr hw (by rw [hst]; decide)
  have hown : r.owner = .app := (hinv.ok i r hr).1 (Or.inr hst)
  refine inv_set hinv i r (readsReq s r) w w hr hw rfl
    (by simp only [set_self_of_getElem? _ _ _ hw]) rfl rfl rfl rfl ?_ ?_ ?_ ?_ ?_ ?_ ?_
  · refine ⟨?_, ?_, ?_⟩
    · intro h; simp only [readsReq] at h; split at h <;> simp at h
    · intro h
      simp only [readsReq] at h ⊢
      split at h
      · rename_i hp
        exact par_readPhase_pending_holds _ _ _ _ (by simpa using hp)
      · cases h
    · intro h; simp only [readsReq] at h; split at h <;> cases h
  · intro hb
    cases hh : r.body.holdsStream with
    | true => rfl
    | false =>
      have := (par_readPhase_nohold r.act r.body hh s.rest s.fin).2.1
      simp only [readsReq] at hb
      rw [this] at hb; cases hb
  · simp only [hnd, readsReq]
    split <;> simp
  · cases hh : r.body.holdsStream with
    | true => exact Or.inr rfl
    | false => exact Or.inl (par_readPhase_nohold r.act r.body hh s.rest s.fin).1
  · by_cases hp : (handlerReads r.act r.body s.rest s.fin).2.1 = .pending
    · simp [fOut, futEmit, readsReq, hst, hte, hp]
    · simp [fOut, futEmit, readsReq, hst, hte, hp, hown]
  · by_cases hp : (handlerReads r.act r.body s.rest s.fin).2.1 = .pending
    · simp [futDel, readsReq, hst, hp, hown, deliveredOf]
    · simp [futDel, readsReq, hst, hp, hown, deliveredOf]
  · by_cases hp : (handlerReads r.act r.body s.rest s.fin).2.1 = .pending
    · simp [futAfter, readsReq, hst, hp]
    · simp [futAfter, readsReq, hst, hp]

theorem inv_finish {T : Bytes} {D : List Delivered} {s s' : State} (hinv : Inv T D s) {i : Nat}
    (h : step s (.finish i) = some s') : Inv T D s' := by
  obtain ⟨r, hr, hst, hcase⟩ := step_finish_inv h
  obtain ⟨w, hw⟩ := writer_exists hinv hr
  have hnd := not_dropped hinv hr hw (by rw [hst]; decide)
  rcases hcase with ⟨rest', hown, hd, rfl⟩ | rfl
  · refine inv_set hinv i r { finishReq r with body := .done } w w hr hw rfl
      (by simp only [set_self_of_getElem? _ _ _ hw]) rfl rfl rfl rfl ?_ ?_ ?_ ?_ ?_ ?_ ?_
    · exact ⟨fun h => by simp [finishReq] at h, fun h => by simp [finishReq] at h,
        fun h => by simp [finishReq] at h⟩
    · intro hb; simp [Body.holdsStream] at hb
    · simp [finishReq, hnd]
    · cases hh : r.body.holdsStream with
      | true => exact Or.inr rfl
      | false =>
        left
        rw [par_drain_nohold _ _ hh] at hd
        simp only [Option.some.injEq] at hd
        exact hd.symm
    · simp [fOut, futEmit, finishReq, hst]
    · simp [futDel, finishReq, hst, deliveredOf]
    · simp only [futAfter, finishReq, hst, hd]
      exact par_drain_nohold _ _ rfl _ _
  · refine inv_set hinv i r (finishReq r) w w hr hw rfl
      (by simp only [setReq, set_self_of_getElem? _ _ _ hw]) rfl rfl rfl rfl ?_ ?_ ?_ (Or.inl rfl) ?_ ?_ ?_
    · exact ⟨fun h => by simp [finishReq] at h, fun h => by simp [finishReq] at h,
        fun h => by simp [finishReq] at h⟩
    · exact fun h => h
    · simp [finishReq, hnd]
    · simp [fOut, futEmit, finishReq, hst]
    · simp [futDel, finishReq, hst, deliveredOf]
    · simp [futAfter, finishReq, hst, setReq]

theorem inv_drop {T : Bytes} {D : List Delivered} {s s' : State} (hinv : Inv T D s) {i : Nat}
    (h : step s (.drop i) = some s') : Inv T D s' := by
  obtain ⟨r, hr, hst, hte, hcase⟩ := step_drop_inv h
  obtain ⟨w, hw⟩ := writer_exists hinv hr
  have hnd := not_dropped hinv hr hw (by rw [hst]; decide)
  rcases hcase with ⟨rest', q, hd, hq, rfl⟩ | ⟨hd, rfl⟩
  · have hq' := seq_drop_inv hw hq
    refine inv_set hinv i r { r with stage := .gone, body := .done } w { w with dropped := true } hr hw rfl
      hq' rfl rfl rfl rfl ?_ ?_ ?_ ?_ ?_ ?_ ?_
    · exact ⟨fun h => by simp at h, fun h => by simp at h, fun _ => rfl⟩
    · intro hb; simp [Body.holdsStream] at hb
    · simp
    · cases hh : r.body.holdsStream with
      | true => exact Or.inr rfl
      | false =>
        left
        rw [par_drain_nohold _ _ hh] at hd
        simp only [Option.some.injEq] at hd
        exact hd.symm
    · simp [fOut, futEmit, hst, hte]
    · simp [futDel, hst, deliveredOf]
    · simp [futAfter, hst, hd]
  · refine inv_set hinv i r { r with stage := .stuck } w w hr hw rfl
      (by simp only [set_self_of_getElem? _ _ _ hw]) rfl rfl rfl rfl ?_ ?_ ?_ ?_ ?_ ?_ ?_
    · exact ⟨fun h => by simp at h, fun _ => par_drain_none_holds _ _ _ _ hd, fun h => by simp at h⟩
    · exact fun h => h
    · simp [hnd]
    · exact Or.inr (par_drain_none_holds _ _ _ _ hd)
    · simp [fOut, futEmit, hst, hte]
    · simp [futDel, hst, deliveredOf]
    · simp [futAfter, hst, hd]

end Lts.Par
end TH
