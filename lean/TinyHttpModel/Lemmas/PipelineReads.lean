/- helper lemmas for Props/C03 pipeline_reads_exact: one iteration of the loop and a whole pipeline,
   tracking EXACTLY what each handler obtained from its body and how its reads ended (not only that
   it is a prefix of the payload), as a function of that handler's own script entry -/
import TinyHttpModel.WireSpec
import TinyHttpModel.Lemmas.PipelineClosing

namespace TH

/-! ### which Content-Length bodies are buffered at parse time, which are streamed -/

/-- the reader `framingOf` chooses for a Content-Length body, read off the result: `.buffered n`
    only for `n ≤ smallBodyLimit` without the expectation; `.limited n` only for `n ≠ 0` and
    (`n > smallBodyLimit` or with the expectation). -/
theorem framingOf_kind_rule (hs : List Header) (fr : Framing) (hf : framingOf hs = .ok fr) :
    (∀ n, fr.kind = .buffered n → n ≤ Extracted.smallBodyLimit ∧ fr.expectContinue = false) ∧
    (∀ n, fr.kind = .limited n → n ≠ 0 ∧ (Extracted.smallBodyLimit < n ∨ fr.expectContinue = true)) := by
  unfold framingOf at hf
  simp only [] at hf
  split at hf
  · cases hf
  · split at hf
    · cases hf
    · rename_i ex _
      simp only [Except.ok.injEq] at hf
      subst hf
      simp only []
      refine ⟨?_, ?_⟩
      · intro n hk
        repeat' split at hk
        all_goals first
          | (cases hk; done)
          | (rename_i hc; cases hk; simp at hc; exact ⟨hc.1, hc.2⟩)
      · intro n hk
        repeat' split at hk
        all_goals first
          | (cases hk; done)
          | (rename_i h0 hc; cases hk; simp at hc; refine ⟨h0, ?_⟩; cases ex <;> simp_all <;> omega)

/-! ### one iteration of the loop, with the exact outcome of the handler's reads -/

/-- One iteration of the loop on a well-formed request of a supported version on a connection that
    stays open, whose framing `fr` starts with the reader `body0` on the stream `w2 ++ rest` and whose
    handling leaves the stream at `rest` without blocking: the request is delivered with the head as
    sent and the framing's length, not marked as the last, and what the handler obtained and how its
    reads ended is `rsum` of the read phase run with this iteration's own script entry. -/
theorem runLoop_reads_step (fuel idx : Nat) (s : St) (h : Head) (ows : List (Bytes × Bytes))
    (wire rest : Bytes) (fin : EndState) (script : Script) (fr : Framing) (body0 : Body) (w2 : Bytes)
    (hwf : Spec.wfHead h = true)
    (hows : ∀ o ∈ ows, Spec.isOwsList o.1 = true ∧ Spec.isOwsList o.2 = true)
    (hfr : framingOf h.headers = .ok fr)
    (hshort : ∀ n, fr.kind = .buffered n → n ≤ wire.length)
    (hib : initialBody fr.kind (wire ++ rest) = (body0, w2 ++ rest))
    (hoff : (handle s h fr false (script idx) body0 (w2 ++ rest) fin).2.1 = rest ∧
      (handle s h fr false (script idx) body0 (w2 ++ rest) fin).2.2 = false)
    (hlast : isLastRequest h.version h.headers = false)
    (hver : (⟨Extracted.maxVersion.1, Extracted.maxVersion.2⟩ : Version).lt h.version = false) :
    ∃ (s' : St) (d : Delivered),
      runLoop (fuel + 1) idx s (Spec.renderHead h ows ++ (wire ++ rest)) fin script =
        runLoop fuel (idx + 1) s' rest fin script ∧
      s'.delivered = s.delivered ++ [d] ∧
      (d.method, d.url, d.version, d.headers, d.bodyLength) =
        (h.method, h.url, h.version, h.headers, fr.bodyLength) ∧
      d.last = false ∧
      (d.bodyRead, d.readEnd) = rsum (handleRead (script idx) body0 (w2 ++ rest) fin) := by
  have hh := readHead_render h ows (wire ++ rest) fin hwf hows
  have hstep := runLoop_step fuel idx s _ fin script h (wire ++ rest) fr hh hfr
    (by intro n hn; have := hshort n hn; simp only [List.length_append]; omega) hver
  rw [hib, hlast] at hstep
  obtain ⟨hd1, hd2⟩ := hoff
  simp only [hd2, hd1, Bool.false_eq_true, if_false] at hstep
  exact ⟨_, _, hstep, handle_delivered .., rfl, rfl, rfl⟩

/-! ### the whole pipeline -/

/-- The induction of `runLoop_generic_pipeline`, with the exact outcome of every handler's reads:
    `items` are messages with a head (`head`, `ows`), bytes on the wire after the head (`wire`), a
    reported length (`declared`) and, for every action a handler may take, the bytes it must obtain
    and the way its reads must end (`result`).  If one iteration of the loop on each of them — in any
    state, with any script and script index, followed by any bytes — delivers it with that length,
    hands the handler exactly `result (script idx) x`, and continues right after its wire bytes
    (`hstep`), then the loop started in any state with any script index `idx` and enough fuel arrives
    at the bytes after the pipeline having delivered exactly one record per message, in order, the
    `i`-th with `result (script (idx + i))` of the `i`-th message. -/
theorem runLoop_reads_pipeline {α : Type} (head : α → Head) (ows : α → List (Bytes × Bytes))
    (wire : α → Bytes) (declared : α → Option Nat) (result : Action → α → Bytes × ReadEnd)
    (fin : EndState) (items : List α) :
    (∀ x ∈ items, ∀ (fuel idx : Nat) (s : St) (rest : Bytes) (script : Script),
      ∃ (s' : St) (d : Delivered),
        runLoop (fuel + 1) idx s (Spec.renderHead (head x) (ows x) ++ (wire x ++ rest)) fin script =
          runLoop fuel (idx + 1) s' rest fin script ∧
        s'.delivered = s.delivered ++ [d] ∧
        d.bodyLength = declared x ∧
        (d.bodyRead, d.readEnd) = result (script idx) x) →
    ∀ (fuel idx : Nat) (s : St) (rest : Bytes) (script : Script),
    items.length ≤ fuel →
    ∃ (s' : St) (ds : List Delivered),
      runLoop fuel idx s
          ((items.map (fun x => Spec.renderHead (head x) (ows x) ++ wire x)).flatten ++ rest) fin script =
        runLoop (fuel - items.length) (idx + items.length) s' rest fin script ∧
      s'.delivered = s.delivered ++ ds ∧
      ds.length = items.length ∧
      (∀ (i : Nat) (d : Delivered) (x : α),
        ds[i]? = some d → items[i]? = some x →
          d.bodyLength = declared x ∧ (d.bodyRead, d.readEnd) = result (script (idx + i)) x) := by
  induction items with
  | nil =>
    intro _ fuel idx s rest script _
    exact ⟨s, [], by simp, by simp, rfl, by simp⟩
  | cons x xs ih =>
    intro hstep fuel idx s rest script hfuel
    obtain ⟨f, rfl⟩ : ∃ f, fuel = f + 1 := ⟨fuel - 1, by simp at hfuel; omega⟩
    obtain ⟨s1, d, hrun1, hdel1, hlen1, hres1⟩ :=
      hstep x (by simp) f idx s
        ((xs.map (fun x => Spec.renderHead (head x) (ows x) ++ wire x)).flatten ++ rest) script
    obtain ⟨s2, ds, hrun2, hdel2, hlen2, hres2⟩ :=
      ih (fun y hy => hstep y (by simp [hy])) f (idx + 1) s1 rest script (by simp at hfuel; omega)
    refine ⟨s2, d :: ds, ?_, ?_, ?_, ?_⟩
    · simp only [List.map_cons, List.flatten_cons, List.append_assoc, List.length_cons]
      rw [hrun1, hrun2]
      congr 1 <;> omega
    · rw [hdel2, hdel1]
      simp
    · simp only [List.length_cons, hlen2]
    · intro i d' x' h1 h2
      cases i with
      | zero =>
        simp only [List.getElem?_cons_zero, Option.some.injEq] at h1 h2
        subst h1 h2
        exact ⟨hlen1, hres1⟩
      | succ j =>
        simp only [List.getElem?_cons_succ] at h1 h2
        have := hres2 j d' x' h1 h2
        rw [show idx + 1 + j = idx + (j + 1) from by omega] at this
        exact this

end TH
