/- helper lemmas (OracleBase): the oracle socket, the line/head readers, the small-body loop,
   `pullBytes` / `advance` -/
import TinyHttpModel.WireOracle
namespace TH

/-- the outcome of a read on an exhausted stream. -/
def stopOut : Stop → ReadOut
  | .eof => .eof
  | .reset => .err
  | .pending => .pending

/-! ### the socket -/

theorem OSrc.read_nil (fin : EndState) (orc : List Nat) (want : Nat) :
    OSrc.read ⟨[], fin, orc⟩ want = (stopOut fin.stop, ⟨[], fin, orc.tail⟩) := by
  cases fin <;> rfl

theorem OSrc.read_cons (b : Nat) (bs : Bytes) (fin : EndState) (orc : List Nat) (want : Nat) (hw : 1 ≤ want) :
    ∃ k, 1 ≤ k ∧ k ≤ want ∧ k ≤ (b :: bs).length ∧ (orc = [] → k = min want (b :: bs).length) ∧
      OSrc.read ⟨b :: bs, fin, orc⟩ want = (.data ((b :: bs).take k), ⟨(b :: bs).drop k, fin, orc.tail⟩) := by
  refine ⟨max 1 (min (orc.headD (min want (b :: bs).length)) (min want (b :: bs).length)), ?_, ?_, ?_, ?_, rfl⟩
  · simp only [List.length_cons]; omega
  · simp only [List.length_cons]; omega
  · simp only [List.length_cons]; omega
  · intro h; subst h; simp only [List.headD_nil, List.length_cons]; omega

/-- general form: a read on a non-empty stream. -/
theorem OSrc.read_data (bs : Bytes) (fin : EndState) (orc : List Nat) (want : Nat) (hw : 1 ≤ want) (hb : bs ≠ []) :
    ∃ k, 1 ≤ k ∧ k ≤ want ∧ k ≤ bs.length ∧ (orc = [] → k = min want bs.length) ∧
      OSrc.read ⟨bs, fin, orc⟩ want = (.data (bs.take k), ⟨bs.drop k, fin, orc.tail⟩) := by
  cases bs with
  | nil => contradiction
  | cons b bs => exact OSrc.read_cons b bs fin orc want hw

theorem OSrc.read_one (b : Nat) (bs : Bytes) (fin : EndState) (orc : List Nat) :
    OSrc.read ⟨b :: bs, fin, orc⟩ 1 = (.data [b], ⟨bs, fin, orc.tail⟩) := by
  obtain ⟨k, h1, h2, _, _, h⟩ := OSrc.read_cons b bs fin orc 1 (Nat.le_refl 1)
  have : k = 1 := by omega
  subst this
  simpa using h

/-! ### the line reader -/

/-- the flat recursion the byte-at-a-time loop performs: position of the first LF that follows a
    CR (`cr`: the byte before the list was a CR).  Returns the bytes before that LF and the bytes
    after it. -/
def scanLine : Bool → Bytes → Option (Bytes × Bytes)
  | _, [] => none
  | cr, b :: rest =>
    if b = 10 ∧ cr = true then some ([], rest)
    else match scanLine (b == 13) rest with
      | some (l, r) => some (b :: l, r)
      | none => none

theorem findCRLF_cons (b : Nat) (rest : Bytes) (h : ∀ r', b = 13 → rest = 10 :: r' → False) :
    findCRLF (b :: rest) = match findCRLF rest with
      | some (l, r) => some (b :: l, r)
      | none => none := by
  rw [findCRLF] <;> first | rfl | (intro r' hb hr; exact h r' hb hr)

theorem scanLine_cons_miss (cr : Bool) (b : Nat) (rest : Bytes) (h : ¬ (b = 10 ∧ cr = true)) :
    scanLine cr (b :: rest) = match scanLine (b == 13) rest with
      | some (l, r) => some (b :: l, r)
      | none => none := by
  rw [scanLine]; simp only [h, if_false]

theorem scanLine_true_ne (bs : Bytes) (h : ∀ r, bs ≠ 10 :: r) : scanLine true bs = scanLine false bs := by
  cases bs with
  | nil => rfl
  | cons b rest =>
    have hb : b ≠ 10 := fun e => h rest (by rw [e])
    rw [scanLine_cons_miss true b rest (by simp [hb]), scanLine_cons_miss false b rest (by simp)]

theorem scanLine_findCRLF (bs : Bytes) :
    scanLine false bs = match findCRLF bs with
      | some (l, r) => some (l ++ [13], r)
      | none => none := by
  induction bs with
  | nil => simp [scanLine, findCRLF]
  | cons b rest ih =>
    rw [scanLine_cons_miss false b rest (by simp)]
    by_cases hb : b = 13
    · subst hb
      cases rest with
      | nil => simp [scanLine, findCRLF]
      | cons c rest' =>
        by_cases hc : c = 10
        · subst hc; simp [scanLine, findCRLF]
        · have e : scanLine true (c :: rest') = scanLine false (c :: rest') :=
            scanLine_true_ne _ (fun r h => by injection h with h; exact hc h)
          rw [show ((13 : Nat) == 13) = true from rfl, e, ih,
            findCRLF_cons 13 (c :: rest') (fun r' _ h => by injection h with h; exact hc h)]
          cases findCRLF (c :: rest') with
          | none => rfl
          | some p => rfl
    · have : (b == 13) = false := by simpa using hb
      rw [this, ih, findCRLF_cons b rest (fun r' h _ => hb h)]
      cases findCRLF rest with
      | none => rfl
      | some p => rfl

theorem readLineLoop_scan (fin : EndState) : ∀ (bs : Bytes) (fuel : Nat) (acc : Bytes) (cr : Bool) (orc : List Nat),
    bs.length + 1 ≤ fuel →
    match scanLine cr bs with
    | some (l', rest) =>
      ∃ orc', readLineLoop fuel ⟨bs, fin, orc⟩ acc cr =
        (if isAscii ((l'.reverse ++ acc).drop 1).reverse then
          .line ((l'.reverse ++ acc).drop 1).reverse ⟨rest, fin, orc'⟩
        else .notAscii ⟨rest, fin, orc'⟩)
    | none => ∃ s', readLineLoop fuel ⟨bs, fin, orc⟩ acc cr = .stop fin.stop s' := by
  intro bs
  induction bs with
  | nil =>
    intro fuel acc cr orc hf
    cases fuel with
    | zero => simp at hf
    | succ fuel =>
      simp only [scanLine]
      rw [readLineLoop, OSrc.read_nil]
      cases fin <;> exact ⟨_, rfl⟩
  | cons b rest ih =>
    intro fuel acc cr orc hf
    cases fuel with
    | zero => simp at hf
    | succ fuel =>
      rw [readLineLoop, OSrc.read_one]
      simp only [scanLine]
      by_cases hc : b = 10 ∧ cr = true
      · simp only [hc, and_self, if_true, List.reverse_nil, List.nil_append]
        exact ⟨_, rfl⟩
      · simp only [hc, if_false]
        have := ih fuel (b :: acc) (b == 13) orc.tail (by simp only [List.length_cons] at hf; omega)
        cases hs : scanLine (b == 13) rest with
        | none => rw [hs] at this; exact this
        | some p =>
          obtain ⟨l', r⟩ := p
          rw [hs] at this
          obtain ⟨orc', h⟩ := this
          refine ⟨orc', ?_⟩
          simp only [h, List.reverse_cons, List.append_assoc, List.singleton_append]

/-- the line reader, from the flat result. -/
theorem readLineO_spec (bs : Bytes) (fin : EndState) (orc : List Nat) :
    match readLine bs fin with
    | .line l rest => ∃ orc', readLineO ⟨bs, fin, orc⟩ = .line l ⟨rest, fin, orc'⟩
    | .notAscii rest => ∃ orc', readLineO ⟨bs, fin, orc⟩ = .notAscii ⟨rest, fin, orc'⟩
    | .stop st => ∃ s', readLineO ⟨bs, fin, orc⟩ = .stop st s' := by
  have h := readLineLoop_scan fin bs (bs.length + 1) [] false orc (Nat.le_refl _)
  rw [scanLine_findCRLF bs] at h
  unfold readLine readLineO
  cases hf : findCRLF bs with
  | none => rw [hf] at h; exact h
  | some p =>
    obtain ⟨l, rest⟩ := p
    rw [hf] at h
    obtain ⟨orc', h⟩ := h
    simp only [List.reverse_append, List.reverse_cons, List.reverse_nil, List.nil_append,
      List.append_nil, List.singleton_append, List.drop_succ_cons, List.drop_zero,
      List.reverse_reverse] at h
    simp only
    by_cases ha : isAscii l = true
    · simp only [ha, if_true] at h ⊢; exact ⟨orc', h⟩
    · simp only [ha] at h ⊢; exact ⟨orc', h⟩

/-! ### heads -/

theorem readHeadersO_spec : ∀ (fuel : Nat) (ver : Version) (bs : Bytes) (fin : EndState) (orc : List Nat),
    match readHeaders fuel ver bs fin with
    | .ok (hs, r) => ∃ orc', readHeadersO fuel ver ⟨bs, fin, orc⟩ = (.ok hs, ⟨r, fin, orc'⟩)
    | .error e => ∃ s', readHeadersO fuel ver ⟨bs, fin, orc⟩ = (.error e, s') := by
  intro fuel
  induction fuel with
  | zero => intro ver bs fin orc; exact ⟨_, rfl⟩
  | succ fuel ih =>
    intro ver bs fin orc
    have hl := readLineO_spec bs fin orc
    rw [readHeaders, readHeadersO]
    cases hr : readLine bs fin with
    | stop st =>
      rw [hr] at hl; obtain ⟨s', hl⟩ := hl
      simp only [hl]; exact ⟨_, rfl⟩
    | notAscii rest =>
      rw [hr] at hl; obtain ⟨s', hl⟩ := hl
      simp only [hl]; exact ⟨_, rfl⟩
    | line l rest =>
      rw [hr] at hl; obtain ⟨orc1, hl⟩ := hl
      simp only [hl]
      by_cases he : l.isEmpty = true
      · simp only [he, if_true]; exact ⟨_, rfl⟩
      · simp only [he]
        cases hp : parseHeaderLine l with
        | none => exact ⟨_, rfl⟩
        | some h =>
          simp only
          have := ih ver rest fin orc1
          cases hh : readHeaders fuel ver rest fin with
          | error e =>
            rw [hh] at this; obtain ⟨s', this⟩ := this
            simp only [this]; exact ⟨_, rfl⟩
          | ok p =>
            obtain ⟨hs, r⟩ := p
            rw [hh] at this; obtain ⟨orc', this⟩ := this
            simp only [this]; exact ⟨_, rfl⟩

theorem readHeadO_spec (bs : Bytes) (fin : EndState) (orc : List Nat) :
    match readHead bs fin with
    | .ok (h, r) => ∃ orc', readHeadO ⟨bs, fin, orc⟩ = (.ok h, ⟨r, fin, orc'⟩)
    | .error e => ∃ s', readHeadO ⟨bs, fin, orc⟩ = (.error e, s') := by
  have hl := readLineO_spec bs fin orc
  rw [readHead, readHeadO]
  cases hr : readLine bs fin with
  | stop st =>
    rw [hr] at hl; obtain ⟨s', hl⟩ := hl
    simp only [hl]; exact ⟨_, rfl⟩
  | notAscii rest =>
    rw [hr] at hl; obtain ⟨s', hl⟩ := hl
    simp only [hl]; exact ⟨_, rfl⟩
  | line l rest =>
    rw [hr] at hl; obtain ⟨orc1, hl⟩ := hl
    simp only [hl]
    cases hp : parseRequestLine l with
    | none => exact ⟨_, rfl⟩
    | some t =>
      obtain ⟨m, p, v⟩ := t
      simp only
      have := readHeadersO_spec (rest.length + 1) v rest fin orc1
      cases hh : readHeaders (rest.length + 1) v rest fin with
      | error e =>
        rw [hh] at this; obtain ⟨s', this⟩ := this
        simp only [this]; exact ⟨_, rfl⟩
      | ok q =>
        obtain ⟨hs, r⟩ := q
        rw [hh] at this; obtain ⟨orc', this⟩ := this
        simp only [this]; exact ⟨_, rfl⟩

/-! ### small bodies -/

theorem readExactO_spec : ∀ (fuel : Nat) (bs : Bytes) (fin : EndState) (orc : List Nat) (n : Nat) (acc : Bytes),
    n < fuel →
    (n ≤ bs.length → ∃ orc', readExactO fuel ⟨bs, fin, orc⟩ n acc = (some (acc ++ bs.take n), ⟨bs.drop n, fin, orc'⟩)) ∧
    (bs.length < n → ∃ s', readExactO fuel ⟨bs, fin, orc⟩ n acc = (none, s')) := by
  intro fuel
  induction fuel with
  | zero => intro bs fin orc n acc hf; omega
  | succ fuel ih =>
    intro bs fin orc n acc hf
    rw [readExactO]
    by_cases hn : n = 0
    · subst hn
      simp only [if_true, List.take_zero, List.append_nil, List.drop_zero]
      exact ⟨fun _ => ⟨_, rfl⟩, fun h => by omega⟩
    · simp only [hn, if_false]
      cases bs with
      | nil =>
        rw [OSrc.read_nil]
        refine ⟨fun h => by simp at h; omega, fun _ => ?_⟩
        cases fin <;> exact ⟨_, rfl⟩
      | cons b bs =>
        obtain ⟨k, hk1, hk2, hk3, _, hr⟩ := OSrc.read_cons b bs fin orc n (by omega)
        rw [hr]
        simp only
        have hlen : ((b :: bs).take k).length = k := by
          rw [List.length_take]; omega
        rw [hlen]
        have := ih ((b :: bs).drop k) fin orc.tail (n - k) (acc ++ (b :: bs).take k) (by omega)
        have hdl : ((b :: bs).drop k).length = (b :: bs).length - k := by simp
        rw [hdl] at this
        constructor
        · intro hle
          obtain ⟨orc', h⟩ := this.1 (by omega)
          refine ⟨orc', ?_⟩
          rw [h, List.drop_drop, List.append_assoc]
          have e : k + (n - k) = n := by omega
          have e2 : (b :: bs).take k ++ ((b :: bs).drop k).take (n - k) = (b :: bs).take n := by
            rw [← e, List.take_add]; simp
          rw [e2, e]
        · intro hlt
          exact this.2 (by omega)

/-! ### `pullBytes`, `advance` -/

theorem pullBytes_spec : ∀ (n : Nat) (bs : Bytes) (fin : EndState) (orc : List Nat) (acc : Bytes),
    n ≤ bs.length →
    ∃ orc', (orc = [] → orc' = []) ∧ pullBytes n ⟨bs, fin, orc⟩ acc = (acc ++ bs.take n, ⟨bs.drop n, fin, orc'⟩) := by
  intro n
  induction n with
  | zero => intro bs fin orc acc _; exact ⟨orc, id, by simp [pullBytes]⟩
  | succ n ih =>
    intro bs fin orc acc h
    cases bs with
    | nil => simp at h
    | cons b bs =>
      rw [pullBytes, OSrc.read_one]
      simp only
      obtain ⟨orc', h0, h'⟩ := ih bs fin orc.tail (acc ++ [b]) (by simpa using h)
      exact ⟨orc', fun e => h0 (by rw [e]; rfl), by rw [h']; simp⟩

theorem advance_spec (bs : Bytes) (fin : EndState) (orc : List Nat) (rest : Bytes) (h : rest <:+ bs) :
    ∃ orc', (orc = [] → orc' = []) ∧ advance ⟨bs, fin, orc⟩ rest = ⟨rest, fin, orc'⟩ := by
  obtain ⟨pre, rfl⟩ := h
  unfold advance
  obtain ⟨orc', h0, h'⟩ := pullBytes_spec ((pre ++ rest).length - rest.length) (pre ++ rest) fin orc [] (by omega)
  refine ⟨orc', h0, ?_⟩
  rw [h']
  simp

/-! ### the flat chunk-line parsers return a suffix of their input -/

theorem takeSizeField_suffix : ∀ (bs f r : Bytes) (e : Bool), takeSizeField bs = some (f, e, r) → r <:+ bs := by
  intro bs
  induction bs with
  | nil => intro f r e h; simp [takeSizeField] at h
  | cons b bs ih =>
    intro f r e h
    rw [takeSizeField] at h
    split at h
    · injection h with h; injection h with _ h; injection h with _ h; subst h; exact List.suffix_cons _ _
    · split at h
      · injection h with h; injection h with _ h; injection h with _ h; subst h; exact List.suffix_cons _ _
      · split at h
        · rename_i f' e' r' heq
          injection h with h; injection h with _ h; injection h with _ h; subst h
          exact (ih _ _ _ heq).trans (List.suffix_cons _ _)
        · cases h

theorem skipToCR_suffix : ∀ (bs r : Bytes), skipToCR bs = some r → r <:+ bs := by
  intro bs
  induction bs with
  | nil => intro r h; simp [skipToCR] at h
  | cons b bs ih =>
    intro r h
    rw [skipToCR] at h
    split at h
    · injection h with h; subst h; exact List.suffix_cons _ _
    · exact (ih _ h).trans (List.suffix_cons _ _)

theorem readChunkSize_suffix' (bs : Bytes) (fin : EndState) :
    match readChunkSize bs fin with
    | .ok _ r => r <:+ bs
    | .bad r => r <:+ bs
    | .stop _ => True := by
  unfold readChunkSize
  cases ht : takeSizeField bs with
  | none =>
    by_cases hfo : (fin == EndState.open) = true <;> simp [hfo]
  | some p =>
    obtain ⟨f, ext, r1⟩ := p
    have h1 : r1 <:+ bs := takeSizeField_suffix _ _ _ _ ht
    simp only
    cases hs : (if ext = true then skipToCR r1 else some r1) with
    | none =>
      by_cases hfo : (fin == EndState.open) = true <;> simp [hfo]
    | some r2 =>
      have h2 : r2 <:+ bs := by
        split at hs
        · exact (skipToCR_suffix _ _ hs).trans h1
        · injection hs with hs; exact hs ▸ h1
      simp only
      cases r2 with
      | nil =>
        by_cases hfo : (fin == EndState.open) = true <;> simp [hfo]
      | cons b r3 =>
        have h3 : r3 <:+ bs := (List.suffix_cons _ _).trans h2
        simp only
        by_cases hb : (b != 10) = true
        · simp only [hb, if_true]; exact h3
        · simp only [hb]
          cases (if isUtf8Ascii f = true then usizeFromHex (trim f) else none) with
          | none => exact h3
          | some n => exact h3

theorem readChunkSize_suffix (bs : Bytes) (fin : EndState) :
    (∀ n r, readChunkSize bs fin = .ok n r → r <:+ bs) ∧ (∀ r, readChunkSize bs fin = .bad r → r <:+ bs) := by
  have h := readChunkSize_suffix' bs fin
  constructor
  · intro n r e; rw [e] at h; exact h
  · intro r e; rw [e] at h; exact h

theorem expectCRLF_suffix (bs : Bytes) (fin : EndState) (r : Bytes) (h : expectCRLF bs fin = some (.ok r)) :
    r <:+ bs := by
  unfold expectCRLF at h
  split at h
  · injection h with h; injection h with h; subst h
    exact (List.suffix_cons _ _).trans (List.suffix_cons _ _)
  · split at h <;> cases h
  · split at h <;> cases h
  · cases h

end TH
