/- helper lemmas (SeqInv) -/
import TinyHttpModel.Lts.Seq
import TinyHttpModel.Req
import TinyHttpModel.WireSpec
namespace TH
end TH
