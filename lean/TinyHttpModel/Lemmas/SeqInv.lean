/- helper lemmas (SeqInv) -/
import TinyHttpModel.Lts.Seq
import TinyHttpModel.Req
import TinyHttpModel.WireSpec
namespace TH

/-! ## Seq LTS: the order invariant -/
namespace Lts.Seq

theorem getD_of_le (l : List W) (i : Nat) (h : l.length ≤ i) : l.getD i {} = {} := by
  simp [List.getD_eq_getElem?_getD, List.getElem?_eq_none h]

theorem getD_set (l : List W) (i j : Nat) (a : W) :
    (l.set i a).getD j {} = if i = j ∧ i < l.length then a else l.getD j {} := by
  simp only [List.getD_eq_getElem?_getD, List.getElem?_set]
  by_cases hij : i = j
  · subst hij
    by_cases hi : i < l.length
    · simp [hi]
    · simp [hi]
  · simp [hij]

theorem getD_append_left (l : List W) (a : W) (j : Nat) (h : j < l.length) :
    (l ++ [a]).getD j {} = l.getD j {} := by
  simp [List.getD_eq_getElem?_getD, List.getElem?_append_left h]

theorem getD_append_default (l : List W) (j : Nat) :
    (l ++ [({} : W)]).getD j {} = l.getD j {} := by
  by_cases h : j < l.length
  · exact getD_append_left l {} j h
  · have h' : l.length ≤ j := Nat.le_of_not_lt h
    rw [getD_of_le l j h']
    simp only [List.getD_eq_getElem?_getD]
    by_cases h2 : j = l.length
    · subst h2; simp
    · have : (l ++ [({} : W)]).length ≤ j := by simp; omega
      simp [List.getElem?_eq_none this]

theorem isDropped_lt {s : State} {i : Nat} (h : isDropped s i = true) : i < s.writers.length := by
  unfold isDropped at h
  by_cases hi : i < s.writers.length
  · exact hi
  · rw [getD_of_le _ _ (Nat.le_of_not_lt hi)] at h
    cases h

/-- all blocks empty ⇒ the concatenation is empty -/
theorem flatten_submitted_nil (l : List W) (h : ∀ k, k < l.length → (l.getD k {}).submitted = []) :
    (l.map (·.submitted)).flatten = [] := by
  induction l with
  | nil => rfl
  | cons a t ih =>
    have h0 : a.submitted = [] := by simpa using h 0 (by simp)
    have ht : ∀ k, k < t.length → (t.getD k {}).submitted = [] := by
      intro k hk
      have := h (k + 1) (by simp; omega)
      simpa using this
    simp [h0, ih ht]

/-- appending to block `i` when all later blocks are empty appends at the very end -/
theorem flatten_set_append (l : List W) (i : Nat) (hi : i < l.length) (bs : List Nat)
    (hl : ∀ k, i < k → k < l.length → (l.getD k {}).submitted = []) :
    ((l.set i { (l.getD i {}) with submitted := (l.getD i {}).submitted ++ bs }).map (·.submitted)).flatten
      = (l.map (·.submitted)).flatten ++ bs := by
  induction l generalizing i with
  | nil => simp at hi
  | cons a t ih =>
    cases i with
    | zero =>
      have ht : (t.map (·.submitted)).flatten = [] := by
        apply flatten_submitted_nil
        intro k hk
        have := hl (k + 1) (by omega) (by simp; omega)
        simpa using this
      simp [ht]
    | succ i =>
      have hi' : i < t.length := by simpa using hi
      have := ih i hi' (by
        intro k hik hk
        have := hl (k + 1) (by omega) (by simp; omega)
        simpa using this)
      simp only [List.getD_cons_succ, List.set_cons_succ, List.map_cons, List.flatten_cons,
        List.append_assoc]
      rw [this]

/-- changing only `dropped` does not change the submitted blocks -/
theorem map_submitted_set_dropped (l : List W) (i : Nat) :
    (l.set i { (l.getD i {}) with dropped := true }).map (·.submitted) = l.map (·.submitted) := by
  induction l generalizing i with
  | nil => simp
  | cons a t ih =>
    cases i with
    | zero => simp
    | succ i =>
      simp only [List.getD_cons_succ, List.set_cons_succ, List.map_cons]
      rw [ih i]

structure Inv (s : State) : Prop where
  order : s.sock ++ s.buf = inOrder s
  pref : ∀ i, isDropped s i = true → ∀ j, j < i → isDropped s j = true
  noOver : ∀ i, i < s.writers.length → (s.writers.getD i {}).submitted ≠ [] →
    ∀ j, j < i → isDropped s j = true

theorem inv_init : Inv {} := by
  refine ⟨rfl, ?_, ?_⟩
  · intro i h; have := isDropped_lt h; simp at this
  · intro i h; simp at h

/-- what `hasTurn` gives under the prefix invariant -/
theorem hasTurn_spec {s : State} {i : Nat} (h : hasTurn s i = true) :
    i < s.writers.length ∧ isDropped s i = false ∧ (i = 0 ∨ isDropped s (i - 1) = true) := by
  unfold hasTurn at h
  simp only [Bool.and_eq_true, decide_eq_true_eq, Bool.not_eq_true', Bool.or_eq_true,
    beq_iff_eq] at h
  exact ⟨h.1.1, h.1.2, h.2⟩

theorem all_before_dropped {s : State} (hinv : Inv s) {i : Nat} (h : hasTurn s i = true) :
    ∀ j, j < i → isDropped s j = true := by
  obtain ⟨_, _, h3⟩ := hasTurn_spec h
  intro j hj
  rcases h3 with h0 | hp
  · omega
  · by_cases hji : j = i - 1
    · subst hji; exact hp
    · exact hinv.pref (i - 1) hp j (by omega)

theorem inv_step {s s' : State} {l : Label} (hinv : Inv s) (hs : step s l = some s') : Inv s' := by
  cases l with
  | issue =>
    simp only [step, Option.some.injEq] at hs
    subst hs
    have hd : ∀ j, isDropped { s with writers := s.writers ++ [{}] } j = isDropped s j := by
      intro j; simp only [isDropped, getD_append_default]
    refine ⟨?_, ?_, ?_⟩
    · have := hinv.order
      simp only [inOrder] at this ⊢
      simp [this]
    · intro i hi j hj
      rw [hd] at hi ⊢
      exact hinv.pref i hi j hj
    · intro i hi hsub j hj
      simp only [getD_append_default] at hsub
      rw [hd]
      have hi' : i < s.writers.length := by
        by_cases hlt : i < s.writers.length
        · exact hlt
        · rw [getD_of_le _ _ (Nat.le_of_not_lt hlt)] at hsub
          exact absurd rfl hsub
      exact hinv.noOver i hi' hsub j hj
  | write i bs =>
    simp only [step] at hs
    split at hs
    · rename_i ht
      simp only [Option.some.injEq] at hs
      subst hs
      obtain ⟨hi, hal, _⟩ := hasTurn_spec ht
      have hbefore := all_before_dropped hinv ht
      have hd : ∀ j, isDropped { s with
          writers := s.writers.set i { (s.writers.getD i {}) with
            submitted := (s.writers.getD i {}).submitted ++ bs },
          buf := s.buf ++ bs } j = isDropped s j := by
        intro j
        simp only [isDropped, getD_set]
        split
        · rename_i h; obtain ⟨rfl, _⟩ := h; rfl
        · rfl
      have hlater : ∀ k, i < k → k < s.writers.length → (s.writers.getD k {}).submitted = [] := by
        intro k hik hk
        apply Classical.byContradiction
        intro hne
        have := hinv.noOver k hk hne i hik
        rw [hal] at this
        cases this
      refine ⟨?_, ?_, ?_⟩
      · simp only [inOrder]
        rw [flatten_set_append _ i hi bs hlater]
        have := hinv.order
        simp only [inOrder] at this
        rw [← this, List.append_assoc]
      · intro k hk j hj
        rw [hd] at hk ⊢
        exact hinv.pref k hk j hj
      · intro k hk hsub j hj
        rw [hd]
        simp only [List.length_set] at hk
        simp only [getD_set] at hsub
        split at hsub
        · rename_i h; obtain ⟨rfl, _⟩ := h
          exact hbefore j hj
        · exact hinv.noOver k hk hsub j hj
    · cases hs
  | flush i =>
    simp only [step] at hs
    split at hs
    · simp only [Option.some.injEq] at hs
      subst hs
      refine ⟨?_, hinv.pref, hinv.noOver⟩
      simpa [inOrder] using hinv.order
    · cases hs
  | drop i =>
    simp only [step] at hs
    split at hs
    · rename_i ht
      simp only [Option.some.injEq] at hs
      subst hs
      obtain ⟨hi, hal, _⟩ := hasTurn_spec ht
      have hbefore := all_before_dropped hinv ht
      have hd : ∀ j, isDropped { s with
          writers := s.writers.set i { (s.writers.getD i {}) with dropped := true } } j
            = (decide (j = i) || isDropped s j) := by
        intro j
        simp only [isDropped, getD_set]
        split
        · rename_i h; obtain ⟨rfl, _⟩ := h; simp
        · rename_i h
          have : j ≠ i := by intro hji; subst hji; exact h ⟨rfl, hi⟩
          simp [this]
      refine ⟨?_, ?_, ?_⟩
      · simp only [inOrder, map_submitted_set_dropped]
        exact hinv.order
      · intro k hk j hj
        rw [hd] at hk ⊢
        simp only [Bool.or_eq_true, decide_eq_true_eq] at hk ⊢
        rcases hk with rfl | hk
        · exact Or.inr (hbefore j hj)
        · exact Or.inr (hinv.pref k hk j hj)
      · intro k hk hsub j hj
        rw [hd]
        simp only [List.length_set] at hk
        simp only [Bool.or_eq_true, decide_eq_true_eq]
        right
        simp only [getD_set] at hsub
        split at hsub
        · rename_i h; obtain ⟨rfl, _⟩ := h
          exact hbefore j hj
        · exact hinv.noOver k hk hsub j hj
    · cases hs
  | sock n =>
    simp only [step] at hs
    split at hs
    · simp only [Option.some.injEq] at hs
      subst hs
      refine ⟨?_, hinv.pref, hinv.noOver⟩
      have := hinv.order
      simp only [inOrder] at this ⊢
      simp only [List.append_assoc, List.take_append_drop]
      exact this
    · cases hs

theorem inv_run : ∀ (ls : List Label) (s s' : State), Inv s → run s ls = some s' → Inv s'
  | [], s, s', hinv, h => by
    simp only [run, Option.some.injEq] at h
    subst h; exact hinv
  | l :: ls, s, s', hinv, h => by
    simp only [run] at h
    split at h
    · rename_i s1 hs1
      exact inv_run ls s1 s' (inv_step hinv hs1) h
    · cases h

theorem inv_reachable {s : State} (h : Reachable s) : Inv s := by
  obtain ⟨ls, hls⟩ := h
  exact inv_run ls {} s inv_init hls

/-- the state right after a turn-holding `drop i`: writer `i` is dropped -/
theorem isDropped_after_drop {s s' : State} {i : Nat} (hs : step s (.drop i) = some s') :
    isDropped s' i = true ∧ s'.writers.length = s.writers.length := by
  simp only [step] at hs
  split at hs
  · rename_i ht
    simp only [Option.some.injEq] at hs
    subst hs
    obtain ⟨hi, _, _⟩ := hasTurn_spec ht
    simp [isDropped, hi]
  · cases hs

end Lts.Seq

/-! ## Req typestate machine -/
namespace Req

theorem run_append (s : RState) (a b : List Op) :
    run s (a ++ b) = (run s a).bind (fun s' => run s' b) := by
  induction a generalizing s with
  | nil => rfl
  | cons o os ih =>
    simp only [List.cons_append, run]
    cases step s o with
    | none => rfl
    | some s1 => exact ih s1

/-- any number of `as_reader` calls on a live request: at most one interim 100, nothing else -/
theorem run_replicate_asReader (s : RState) (n : Nat) (ha : s.alive = true) :
    run s (List.replicate n .asReader) =
      some (if s.mustContinue = true ∧ 0 < n
            then { s with mustContinue := false, emitted := s.emitted ++ [.interim100] } else s) := by
  induction n generalizing s with
  | zero => simp [run]
  | succ n ih =>
    simp only [List.replicate_succ, run, step, ha]
    cases hmc : s.mustContinue with
    | true =>
      simp only [Bool.not_true, Bool.false_eq_true, if_false, if_true]
      rw [ih _ rfl]
      simp
    | false =>
      simp only [Bool.not_true, Bool.false_eq_true, if_false]
      rw [ih _ ha]
      simp [hmc]

theorem step_dead (s : RState) (h : s.alive = false) (o : Op) : step s o = none := by
  cases o <;> simp [step, h]

/-- shape of `emitted` along any run that starts with nothing emitted -/
def Shape (s : RState) : Prop :=
  (s.emitted = [] ∨ (s.emitted = [.interim100] ∧ s.mustContinue = false)) ∨
  (s.alive = false ∧ ∃ x, isFinal x = true ∧ (s.emitted = [x] ∨ s.emitted = [.interim100, x]))

theorem shape_step {s s' : RState} {o : Op} (hq : Shape s) (hs : step s o = some s') : Shape s' := by
  cases hal : s.alive with
  | false => rw [step_dead s hal o] at hs; cases hs
  | true =>
    rcases hq with hq | ⟨hd, _⟩
    · cases o with
      | asReader =>
        simp only [step, hal] at hs
        cases hmc : s.mustContinue with
        | true =>
          simp only [hmc, Bool.not_true, Bool.false_eq_true, if_false, if_true,
            Option.some.injEq] at hs
          subst hs
          rcases hq with he | ⟨_, hf⟩
          · left; right; simp [he]
          · rw [hmc] at hf; cases hf
        | false =>
          simp only [hmc, Bool.not_true, Bool.false_eq_true, if_false, Option.some.injEq] at hs
          subst hs
          exact Or.inl hq
      | respond st =>
        simp only [step, hal] at hs
        split at hs
        · simp only [Option.some.injEq] at hs
          subst hs
          right
          refine ⟨rfl, .final st, rfl, ?_⟩
          rcases hq with he | ⟨he, _⟩ <;> simp [he]
        · cases hs
      | intoWriter =>
        simp only [step, hal] at hs
        split at hs
        · simp only [Option.some.injEq] at hs
          subst hs
          right
          refine ⟨rfl, .rawWriter, rfl, ?_⟩
          rcases hq with he | ⟨he, _⟩ <;> simp [he]
        · cases hs
      | upgrade st =>
        simp only [step, hal] at hs
        split at hs
        · simp only [Option.some.injEq] at hs
          subst hs
          right
          refine ⟨rfl, .final st, rfl, ?_⟩
          rcases hq with he | ⟨he, _⟩ <;> simp [he]
        · cases hs
      | drop =>
        simp only [step, hal] at hs
        cases hw : s.writerSlot with
        | true =>
          simp only [hw, Bool.not_true, Bool.false_eq_true, if_false, if_true,
            Option.some.injEq] at hs
          subst hs
          right
          refine ⟨rfl, .final 500, rfl, ?_⟩
          rcases hq with he | ⟨he, _⟩ <;> simp [he]
        | false =>
          simp only [hw, Bool.not_true, Bool.false_eq_true, if_false, Option.some.injEq] at hs
          subst hs
          left
          rcases hq with he | ⟨he, hm⟩
          · exact Or.inl he
          · exact Or.inr ⟨he, hm⟩
    · rw [hal] at hd; cases hd

theorem shape_run : ∀ (ops : List Op) (s s' : RState), Shape s → run s ops = some s' → Shape s'
  | [], s, s', hq, h => by
    simp only [run, Option.some.injEq] at h
    subst h; exact hq
  | o :: os, s, s', hq, h => by
    simp only [run] at h
    split at h
    · rename_i s1 hs1
      exact shape_run os s1 s' (shape_step hq hs1) h
    · cases h

theorem pre_nil_of_tail {l : List Emit} (h : Emit.interim100 ∉ l.tail) :
    ∀ pre post, l = pre ++ [.interim100] ++ post → pre = [] := by
  intro pre post hl
  cases pre with
  | nil => rfl
  | cons a t => subst hl; simp at h

theorem shape_concl {s : RState} (hq : Shape s) :
    (s.emitted.filter (· == .interim100)).length ≤ 1 ∧
    (∀ pre post, s.emitted = pre ++ [.interim100] ++ post → pre = []) := by
  rcases hq with (he | ⟨he, _⟩) | ⟨_, x, hx, he | he⟩
  · rw [he]; exact ⟨by simp, pre_nil_of_tail (by simp)⟩
  · rw [he]; exact ⟨by simp, pre_nil_of_tail (by simp)⟩
  · rw [he]
    refine ⟨?_, pre_nil_of_tail (by simp)⟩
    cases x <;> simp
  · rw [he]
    refine ⟨?_, pre_nil_of_tail ?_⟩
    · cases x with
      | interim100 => cases hx
      | final st => simp
      | rawWriter => simp
    · cases x with
      | interim100 => cases hx
      | final st => simp
      | rawWriter => simp

end Req

end TH
