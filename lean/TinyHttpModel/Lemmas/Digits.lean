/- helper lemmas for C04 (Digits): number formatting round trips -/
import TinyHttpModel.RespSpec
namespace TH

/-! ### `digits` -/

theorem digitsAux_append (base : Nat) : ∀ (fuel n : Nat) (acc : List Nat),
    digitsAux base fuel n acc = digitsAux base fuel n [] ++ acc := by
  intro fuel
  induction fuel with
  | zero => intro n acc; simp [digitsAux]
  | succ fuel ih =>
    intro n acc
    simp only [digitsAux]
    split
    · simp
    · rw [ih (n / base) (n % base :: acc), ih (n / base) [n % base]]
      simp

theorem digitsAux_fuel (base : Nat) (hb : 2 ≤ base) : ∀ (f1 f2 n : Nat) (acc : List Nat),
    n < f1 → n < f2 → digitsAux base f1 n acc = digitsAux base f2 n acc := by
  intro f1
  induction f1 with
  | zero => intro f2 n acc h1; omega
  | succ f1 ih =>
    intro f2 n acc h1 h2
    cases f2 with
    | zero => omega
    | succ f2 =>
      simp only [digitsAux]
      split
      · rfl
      · rename_i hn
        have hpos : 0 < base := by omega
        have hlt : n / base < n := Nat.div_lt_self (by omega) (by omega)
        exact ih f2 (n / base) _ (by omega) (by omega)

/-- the fuel-free recursion equation of `digits`. -/
theorem digits_eq (base : Nat) (hb : 2 ≤ base) (n : Nat) :
    digits base n = if n < base then [n] else digits base (n / base) ++ [n % base] := by
  unfold digits
  rw [show digitsAux base (n + 1) n [] =
      if n < base then [n] else digitsAux base n (n / base) [n % base] from by simp [digitsAux]]
  split
  · rfl
  · rename_i hn
    have hlt : n / base < n := Nat.div_lt_self (by omega) (by omega)
    rw [digitsAux_append, digitsAux_fuel base hb n (n / base + 1) (n / base) [] hlt (by omega)]

theorem digits_lt (base : Nat) (hb : 2 ≤ base) (n : Nat) : ∀ d ∈ digits base n, d < base := by
  induction n using Nat.strongRecOn with
  | ind n ih =>
    rw [digits_eq base hb n]
    split
    · intro d hd; simp at hd; omega
    · rename_i hn
      have hlt : n / base < n := Nat.div_lt_self (by omega) (by omega)
      intro d hd
      simp only [List.mem_append, List.mem_singleton] at hd
      cases hd with
      | inl h => exact ih _ hlt d h
      | inr h => subst h; exact Nat.mod_lt _ (by omega)

theorem digits_ne_nil (base : Nat) (hb : 2 ≤ base) (n : Nat) : digits base n ≠ [] := by
  rw [digits_eq base hb n]
  split <;> simp

/-! ### decimal -/

theorem ofDecAux_snoc (l : Bytes) (d a : Nat) (hd : d < 10) :
    ofDecAux (l ++ [d + 48]) a = (ofDecAux l a).map (fun v => v * 10 + d) := by
  induction l generalizing a with
  | nil =>
    have : decVal (d + 48) = some d := by
      simp only [decVal]; rw [if_pos (by omega)]; simp
    simp [ofDecAux, this]
  | cons b bs ih =>
    simp only [List.cons_append, ofDecAux]
    cases decVal b with
    | none => simp
    | some v => simp [ih]

theorem toDec_eq (n : Nat) :
    toDec n = if n < 10 then [n + 48] else toDec (n / 10) ++ [n % 10 + 48] := by
  unfold toDec
  rw [digits_eq 10 (by omega) n]
  split <;> simp

theorem ofDecAux_toDec (n : Nat) : ofDecAux (toDec n) 0 = some n := by
  induction n using Nat.strongRecOn with
  | ind n ih =>
    rw [toDec_eq n]
    split
    · rename_i hn
      have : decVal (n + 48) = some n := by
        simp only [decVal]; rw [if_pos (by omega)]; simp
      simp [ofDecAux, this]
    · rename_i hn
      rw [ofDecAux_snoc _ _ _ (Nat.mod_lt _ (by omega)), ih (n / 10) (by omega)]
      simp only [Option.map_some, Option.some.injEq]
      omega

theorem toDec_ne_nil (n : Nat) : toDec n ≠ [] := by
  unfold toDec
  simpa using digits_ne_nil 10 (by omega) n

theorem toDec_digits (n : Nat) : ∀ b ∈ toDec n, 48 ≤ b ∧ b ≤ 57 := by
  intro b hb
  unfold toDec at hb
  simp only [List.mem_map] at hb
  obtain ⟨d, hd, rfl⟩ := hb
  have := digits_lt 10 (by omega) n d hd
  omega

theorem ofDec_toDec (n : Nat) : ofDec (toDec n) = some n := by
  have h := toDec_ne_nil n
  unfold ofDec
  split
  · contradiction
  · exact ofDecAux_toDec n

/-! ### hexadecimal -/

theorem hexVal_hexDigit (d : Nat) (hd : d < 16) : hexVal (hexDigit d) = some d := by
  unfold hexDigit hexVal
  by_cases h : d < 10
  · rw [if_pos h, if_pos (by omega)]; simp only [Option.some.injEq]; omega
  · rw [if_neg h, if_neg (by omega), if_pos (by omega)]; simp only [Option.some.injEq]; omega

theorem ofHexAux_snoc (l : Bytes) (d a : Nat) (hd : d < 16) :
    ofHexAux (l ++ [hexDigit d]) a = (ofHexAux l a).map (fun v => v * 16 + d) := by
  induction l generalizing a with
  | nil => simp [ofHexAux, hexVal_hexDigit d hd]
  | cons b bs ih =>
    simp only [List.cons_append, ofHexAux]
    cases hexVal b with
    | none => simp
    | some v => simp [ih]

theorem toHex_eq (n : Nat) :
    toHex n = if n < 16 then [hexDigit n] else toHex (n / 16) ++ [hexDigit (n % 16)] := by
  unfold toHex
  rw [digits_eq 16 (by omega) n]
  split <;> simp

theorem ofHexAux_toHex (n : Nat) : ofHexAux (toHex n) 0 = some n := by
  induction n using Nat.strongRecOn with
  | ind n ih =>
    rw [toHex_eq n]
    split
    · rename_i hn
      simp [ofHexAux, hexVal_hexDigit n hn]
    · rename_i hn
      rw [ofHexAux_snoc _ _ _ (Nat.mod_lt _ (by omega)), ih (n / 16) (by omega)]
      simp only [Option.map_some, Option.some.injEq]
      omega

theorem toHex_ne_nil (n : Nat) : toHex n ≠ [] := by
  unfold toHex
  simpa using digits_ne_nil 16 (by omega) n

theorem toHex_hexdigits (n : Nat) :
    ∀ b ∈ toHex n, (48 ≤ b ∧ b ≤ 57) ∨ (97 ≤ b ∧ b ≤ 102) := by
  intro b hb
  unfold toHex at hb
  simp only [List.mem_map] at hb
  obtain ⟨d, hd, rfl⟩ := hb
  have := digits_lt 16 (by omega) n d hd
  unfold hexDigit
  split <;> omega

theorem ofHex_toHex (n : Nat) : ofHex (toHex n) = some n := by
  have h := toHex_ne_nil n
  unfold ofHex
  split
  · contradiction
  · exact ofHexAux_toHex n

end TH
