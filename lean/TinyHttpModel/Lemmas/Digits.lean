/- helper lemmas for C04 (Digits) -/
import TinyHttpModel.RespSpec
namespace TH
end TH
