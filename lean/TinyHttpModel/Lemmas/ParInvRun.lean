/- helper lemmas for Lts.Par (6): `parse`, the BufWriter steps, and the invariant on reachable states -/
import TinyHttpModel.Lemmas.ParInvStep

namespace TH
namespace Lts.Par

theorem getElem?_snoc {α : Type} (l : List α) (a b : α) (j : Nat) (h : (l ++ [a])[j]? = some b) :
    (j < l.length ∧ l[j]? = some b) ∨ (j = l.length ∧ b = a) := by
  rw [List.getElem?_append] at h
  split at h
  · rename_i hj; exact Or.inl ⟨hj, h⟩
  · rename_i hj
    have : j - l.length = 0 := by
      rcases Nat.eq_zero_or_pos (j - l.length) with h0 | h0
      · exact h0
      · rw [List.getElem?_eq_none (by simp; omega)] at h; cases h
    rw [this] at h
    simp only [List.getElem?_cons_zero, Option.some.injEq] at h
    exact Or.inr ⟨by omega, h.symm⟩

theorem inv_parse {T : Bytes} {D : List Delivered} {s s' : State} (hinv : Inv T D s)
    (h : step s .parse = some s') : Inv T D s' := by
  simp only [step] at h
  split at h
  · rename_i hc
    simp only [Option.some.injEq] at h; subst h
    simp only [Bool.and_eq_true, Bool.not_eq_true', Option.isNone_iff_eq_none] at hc
    obtain ⟨⟨hpe, hsh⟩, -⟩ := hc
    -- no request owns the stream, none is stuck
    have hnh : ∀ (i : Nat) r, s.reqs[i]? = some r → r.body.holdsStream = false ∧ r.stage ≠ .stuck := by
      intro i r hr
      have hm : r ∈ s.reqs := List.mem_of_getElem? hr
      have hok := hinv.ok i r hr
      have h1 : r.body.holdsStream = false := by
        simp only [streamHeld, List.any_eq_false, Bool.and_eq_true, bne_iff_ne, ne_eq, not_and,
          Decidable.not_not] at hsh
        cases hb : r.body.holdsStream with
        | false => rfl
        | true =>
          have := hok.2.2 (hsh r hm hb)
          rw [hb] at this; cases this
      refine ⟨h1, fun hst => ?_⟩
      have := hok.2.1 hst
      rw [h1] at this; cases this
    have hla : lastAfter s = some s.rest := by
      unfold lastAfter
      cases hq : s.reqs[s.reqs.length - 1]? with
      | none => rfl
      | some q => exact futAfter_nohold _ _ _ (hnh _ q hq).1 (hnh _ q hq).2
    obtain ⟨fuel, hb, ho, hd⟩ := hinv.sim
    have hf := hb hpe s.rest hla
    obtain ⟨f, rfl⟩ : ∃ f, fuel = f + 1 := ⟨fuel - 1, by omega⟩
    rw [hla] at ho hd
    simp only [tailOut, tailDel, hpe, Option.isSome_none, Bool.false_eq_true, if_false] at ho hd
    rcases par_parse_cases s hpe with ⟨e, hps, hrl⟩ | ⟨r, rest1, idx', pe, hps, hnew, hl1, hl2, hrl⟩
    · rw [hps]
      refine ⟨hinv.len, hinv.ok, hinv.hold, hinv.dropG, ⟨f + 1, ?_, ?_, ?_⟩⟩
      · intro h; cases h
      · rw [← ho, (hrl f s.nextIdx {}).1]
        simp [tailOut]
      · rw [← hd, (hrl f s.nextIdx {}).2]
        simp [tailDel]
    · rw [hps]
      have hlast : lastAfter { addReq s r rest1 with nextIdx := idx', parserEnd := pe } = futAfter s.fin rest1 r := by
        simp [lastAfter, addReq]
      have hnotgone : r.stage ≠ .gone := by
        rcases hnew with ⟨h, _⟩ | h <;> rw [h] <;> decide
      refine ⟨?_, ?_, ?_, ?_, ⟨f, ?_, ?_, ?_⟩⟩
      · simp [addReq, hinv.len]
      · intro j q hq
        rcases getElem?_snoc _ _ _ _ hq with ⟨_, hq'⟩ | ⟨_, rfl⟩
        · exact hinv.ok j q hq'
        · unfold ReqOk
          rcases hnew with ⟨h1, h2⟩ | h1
          · rw [h1]
            exact ⟨fun _ => h2, fun h => (by cases h), fun h => (by cases h)⟩
          · rw [h1]
            refine ⟨fun h => ?_, fun h => (by cases h), fun h => (by cases h)⟩
            rcases h with h | h <;> cases h
      · intro j q hq hj
        rcases getElem?_snoc _ _ _ _ hq with ⟨_, hq'⟩ | ⟨hj', _⟩
        · exact (hnh j q hq').1
        · simp [addReq] at hj; omega
      · intro j q v hq hv
        have hv' : (s.seq.writers ++ [({} : Seq.W)])[j]? = some v := hv
        rcases getElem?_snoc _ _ _ _ hq with ⟨hj, hq'⟩ | ⟨hj, rfl⟩
        · rcases getElem?_snoc _ _ _ _ hv' with ⟨_, hv''⟩ | ⟨hj', _⟩
          · exact hinv.dropG j q v hq' hv''
          · have := hinv.len; omega
        · rcases getElem?_snoc _ _ _ _ hv' with ⟨hj', _⟩ | ⟨_, rfl⟩
          · have := hinv.len; omega
          · constructor
            · intro h; cases h
            · intro h; exact absurd h hnotgone
      · intro hpn rest' hr'
        rw [hlast] at hr'
        have := futAfter_len _ _ _ _ hr'
        have := hl2 hpn
        omega
      · rw [hlast]
        show sumZip (fOut s.fin rest1) (s.reqs ++ [r]) (s.seq.writers ++ [({} : Seq.W)]) ++
          tailOut s.fin s.script pe idx' (futAfter s.fin rest1 r) f = T
        rw [sumZip_append _ _ _ hinv.len, ← ho, (hrl f {}).1]
        have : sumZip (fOut s.fin rest1) s.reqs s.seq.writers = sumZip (fOut s.fin s.rest) s.reqs s.seq.writers := by
          refine sumZip_congr _ _ _ _ _ _ rfl rfl hinv.len ?_
          intro j q q0 v v0 hq hq0 hv hv0
          rw [hq] at hq0; rw [hv] at hv0
          simp only [Option.some.injEq] at hq0 hv0; subst hq0 hv0
          unfold fOut; rw [futEmit_nohold _ _ _ _ (hnh j q hq).1]
        rw [this]
        simp [fOut]
      · rw [hlast]
        show sumZip (fDel s.fin rest1) (s.reqs ++ [r]) (s.seq.writers ++ [({} : Seq.W)]) ++
          tailDel s.fin s.script pe idx' (futAfter s.fin rest1 r) f = D
        rw [sumZip_append _ _ _ hinv.len, ← hd, (hrl f {}).2]
        have : sumZip (fDel s.fin rest1) s.reqs s.seq.writers = sumZip (fDel s.fin s.rest) s.reqs s.seq.writers := by
          refine sumZip_congr _ _ _ _ _ _ rfl rfl hinv.len ?_
          intro j q q0 v v0 hq hq0 hv hv0
          rw [hq] at hq0
          simp only [Option.some.injEq] at hq0; subst hq0
          unfold fDel; rw [futDel_nohold _ _ _ _ (hnh j q hq).1]
        rw [this]
        simp [fDel]
  · cases h

theorem seq_flush_writers {q q' : Seq.State} {i : Nat} (h : Seq.step q (.flush i) = some q') :
    q'.writers = q.writers := by
  simp only [Seq.step] at h
  split at h
  · simp only [Option.some.injEq] at h; subst h; rfl
  · cases h

theorem seq_sock_writers {q q' : Seq.State} {n : Nat} (h : Seq.step q (.sock n) = some q') :
    q'.writers = q.writers := by
  simp only [Seq.step] at h
  split at h
  · simp only [Option.some.injEq] at h; subst h; rfl
  · cases h

theorem inv_flush {T : Bytes} {D : List Delivered} {s s' : State} (hinv : Inv T D s) {i : Nat}
    (h : step s (.flush i) = some s') : Inv T D s' := by
  simp only [step] at h
  cases hr : s.reqs[i]? with
  | none => simp [hr] at h
  | some r =>
    simp only [hr] at h
    split at h
    · simp only [seqStep] at h
      cases hq : Seq.step s.seq (.flush i) with
      | none => simp [hq] at h
      | some q =>
        simp only [hq, Option.map_some, Option.some.injEq] at h; subst h
        exact inv_congr hinv rfl rfl rfl rfl rfl rfl (seq_flush_writers hq)
    · cases h

theorem inv_sock {T : Bytes} {D : List Delivered} {s s' : State} (hinv : Inv T D s) {n : Nat}
    (h : step s (.sock n) = some s') : Inv T D s' := by
  simp only [step, seqStep] at h
  cases hq : Seq.step s.seq (.sock n) with
  | none => simp [hq] at h
  | some q =>
    simp only [hq, Option.map_some, Option.some.injEq] at h; subst h
    exact inv_congr hinv rfl rfl rfl rfl rfl rfl (seq_sock_writers hq)

theorem inv_step {T : Bytes} {D : List Delivered} {s s' : State} (hinv : Inv T D s) {l : Label}
    (h : step s l = some s') : Inv T D s' := by
  cases l with
  | parse => exact inv_parse hinv h
  | «begin» i => exact inv_begin hinv h
  | write i k => exact inv_write hinv h
  | flush i => exact inv_flush hinv h
  | sock n => exact inv_sock hinv h
  | reads i => exact inv_reads hinv h
  | finish i => exact inv_finish hinv h
  | drop i => exact inv_drop hinv h

/-- a property every step preserves holds in every reachable state. -/
theorem run_induction (P : State → Prop) (hstep : ∀ s s' l, P s → step s l = some s' → P s') :
    ∀ (ls : List Label) (s s' : State), P s → run s ls = some s' → P s' := by
  intro ls
  induction ls with
  | nil => intro s s' hp h; simp only [run, Option.some.injEq] at h; subst h; exact hp
  | cons l ls ih =>
    intro s s' hp h
    simp only [run] at h
    cases hs : step s l with
    | none => simp [hs] at h
    | some s1 => simp only [hs] at h; exact ih s1 s' (hstep s s1 l hp hs) h

theorem inv_reachable {bs : Bytes} {fin : EndState} {script : Script} {s : State}
    (h : Reachable bs fin script s) :
    Inv (Conn.run bs fin script).out (Conn.run bs fin script).delivered s := by
  obtain ⟨ls, hl⟩ := h
  exact run_induction _ (fun _ _ _ hp hs => inv_step hp hs) ls _ _ (inv_init bs fin script) hl

/-! ### the writer side is an execution of `Lts.Seq` -/

theorem seq_run_snoc : ∀ (ls : List Seq.Label) (q q1 q2 : Seq.State) (l : Seq.Label),
    Seq.run q ls = some q1 → Seq.step q1 l = some q2 → Seq.run q (ls ++ [l]) = some q2 := by
  intro ls
  induction ls with
  | nil =>
    intro q q1 q2 l h1 h2
    simp only [Seq.run, Option.some.injEq] at h1; subst h1
    simp [Seq.run, h2]
  | cons a ls ih =>
    intro q q1 q2 l h1 h2
    simp only [Seq.run] at h1
    cases hs : Seq.step q a with
    | none => simp [hs] at h1
    | some q' =>
      simp only [hs] at h1
      simp only [List.cons_append, Seq.run, hs]
      exact ih q' q1 q2 l h1 h2

theorem seq_reachable_step {q q' : Seq.State} {l : Seq.Label} (h : Seq.Reachable q)
    (hs : Seq.step q l = some q') : Seq.Reachable q' := by
  obtain ⟨ls, hl⟩ := h
  exact ⟨ls ++ [l], seq_run_snoc ls _ _ _ l hl hs⟩

/-- `parse` either only stops the connection thread or appends one request (and its writer). -/
theorem parseStep_shape (s : State) :
    (∃ e, parseStep s = { s with parserEnd := some e }) ∨
    (∃ r rest1 idx' pe, parseStep s = { addReq s r rest1 with nextIdx := idx', parserEnd := pe } ∧ NewReq r) := by
  cases hh : readHead s.rest s.fin with
  | error e =>
    cases e with
    | wrongRequestLine =>
      exact Or.inr ⟨errReq (printError 400 ⟨1, 1⟩ false), s.rest, s.nextIdx, some .closed,
        by unfold parseStep; simp only [hh]; rfl, Or.inr rfl⟩
    | wrongHeader v =>
      exact Or.inr ⟨errReq (printError 400 v false), s.rest, s.nextIdx, some .closed,
        by unfold parseStep; simp only [hh]; rfl, Or.inr rfl⟩
    | notAscii => exact Or.inl ⟨.closed, by unfold parseStep; simp only [hh]⟩
    | stop st0 =>
      cases st0 with
      | pending => exact Or.inl ⟨.waiting, by unfold parseStep; simp only [hh]⟩
      | eof => exact Or.inl ⟨.closed, by unfold parseStep; simp only [hh]⟩
      | reset => exact Or.inl ⟨.closed, by unfold parseStep; simp only [hh]⟩
  | ok p =>
    obtain ⟨h, rest⟩ := p
    cases hf : framingFor h.version h.headers with
    | error e =>
      refine Or.inr ⟨errReq (framingErrBytes h.version e), s.rest, s.nextIdx, some .closed, ?_, Or.inr rfl⟩
      unfold parseStep; simp only [hh, hf]
      cases e <;> rfl
    | ok fr =>
      by_cases hshort : isShort fr.kind rest
      · obtain ⟨n, hk, hs⟩ := hshort
        exact Or.inl ⟨_, parseStep_short s h rest fr n hh hf hk hs⟩
      · have hshort := not_isShort hshort
        cases hver : (⟨Extracted.maxVersion.1, Extracted.maxVersion.2⟩ : Version).lt h.version with
        | true =>
          exact Or.inr ⟨conn505Req h fr rest, (initialBody fr.kind rest).2, s.nextIdx, s.parserEnd,
            by rw [parseStep_505 s h rest fr hh hf hshort hver]; rfl, Or.inr rfl⟩
        | false =>
          exact Or.inr ⟨appReq s h fr rest, (initialBody fr.kind rest).2, s.nextIdx + 1, _,
            parseStep_app s h rest fr hh hf hshort hver, Or.inl ⟨rfl, rfl⟩⟩

theorem parseStep_seq (s : State) :
    (parseStep s).seq = s.seq ∨ Seq.step s.seq .issue = some (parseStep s).seq := by
  rcases parseStep_shape s with ⟨e, h⟩ | ⟨r, rest1, idx', pe, h, -⟩
  · rw [h]; exact Or.inl rfl
  · rw [h]; exact Or.inr rfl

theorem step_seq {s s' : State} {l : Label} (h : step s l = some s') :
    s'.seq = s.seq ∨ ∃ l', Seq.step s.seq l' = some s'.seq := by
  cases l with
  | parse =>
    simp only [step] at h
    split at h
    · simp only [Option.some.injEq] at h; subst h
      rcases parseStep_seq s with h | h
      · exact Or.inl h
      · exact Or.inr ⟨_, h⟩
    · cases h
  | «begin» i => obtain ⟨r, _, _, _, rfl⟩ := step_begin_inv h; exact Or.inl rfl
  | write i k => obtain ⟨r, q, _, _, hq, rfl⟩ := step_write_inv h; exact Or.inr ⟨_, hq⟩
  | flush i =>
    simp only [step] at h
    cases hr : s.reqs[i]? with
    | none => simp [hr] at h
    | some r =>
      simp only [hr] at h
      split at h
      · simp only [seqStep] at h
        cases hq : Seq.step s.seq (.flush i) with
        | none => simp [hq] at h
        | some q =>
          simp only [hq, Option.map_some, Option.some.injEq] at h; subst h
          exact Or.inr ⟨_, hq⟩
      · cases h
  | sock n =>
    simp only [step, seqStep] at h
    cases hq : Seq.step s.seq (.sock n) with
    | none => simp [hq] at h
    | some q =>
      simp only [hq, Option.map_some, Option.some.injEq] at h; subst h
      exact Or.inr ⟨_, hq⟩
  | reads i => obtain ⟨r, _, _, _, rfl⟩ := step_reads_inv h; exact Or.inl rfl
  | finish i =>
    obtain ⟨r, _, _, hc⟩ := step_finish_inv h
    rcases hc with ⟨_, _, _, rfl⟩ | rfl <;> exact Or.inl rfl
  | drop i =>
    obtain ⟨r, _, _, _, hc⟩ := step_drop_inv h
    rcases hc with ⟨_, q, _, hq, rfl⟩ | ⟨_, rfl⟩
    · exact Or.inr ⟨_, hq⟩
    · exact Or.inl rfl

theorem seq_reachable {bs : Bytes} {fin : EndState} {script : Script} {s : State}
    (h : Reachable bs fin script s) : Seq.Reachable s.seq := by
  obtain ⟨ls, hl⟩ := h
  refine run_induction (fun s => Seq.Reachable s.seq) ?_ ls _ _ ⟨[], rfl⟩ hl
  intro s s' l hp hs
  rcases step_seq hs with h | ⟨l', h⟩
  · rw [h]; exact hp
  · exact seq_reachable_step hp h

/-! ### nobody gets stuck on a closed stream -/

theorem parseStep_fin (s : State) : (parseStep s).fin = s.fin := by
  rcases parseStep_shape s with ⟨e, h⟩ | ⟨r, rest1, idx', pe, h, -⟩ <;> rw [h] <;> rfl

theorem parseStep_reqs (s : State) :
    (parseStep s).reqs = s.reqs ∨ ∃ r, (parseStep s).reqs = s.reqs ++ [r] ∧ r.stage ≠ .stuck := by
  rcases parseStep_shape s with ⟨e, h⟩ | ⟨r, rest1, idx', pe, h, hnew⟩
  · rw [h]; exact Or.inl rfl
  · rw [h]
    refine Or.inr ⟨r, rfl, ?_⟩
    rcases hnew with ⟨h1, _⟩ | h1 <;> rw [h1] <;> decide

theorem nostuck_step {fin : EndState} (hf : fin ≠ .open) {s s' : State} {l : Label}
    (hp : s.fin = fin ∧ ∀ r ∈ s.reqs, r.stage ≠ .stuck) (h : step s l = some s') :
    s'.fin = fin ∧ ∀ r ∈ s'.reqs, r.stage ≠ .stuck := by
  obtain ⟨hfin, hns⟩ := hp
  have hset : ∀ (i : Nat) (r' : PReq), r'.stage ≠ .stuck → ∀ r ∈ s.reqs.set i r', r.stage ≠ .stuck := by
    intro i r' hr' r hm
    rcases List.mem_or_eq_of_mem_set hm with h | h
    · exact hns r h
    · rw [h]; exact hr'
  cases l with
  | parse =>
    simp only [step] at h
    split at h
    · simp only [Option.some.injEq] at h; subst h
      refine ⟨by rw [parseStep_fin]; exact hfin, ?_⟩
      rcases parseStep_reqs s with h | ⟨r0, h, hr0⟩
      · rw [h]; exact hns
      · rw [h]; intro r hm
        rcases List.mem_append.1 hm with h | h
        · exact hns r h
        · simp only [List.mem_singleton] at h; rw [h]; exact hr0
    · cases h
  | «begin» i =>
    obtain ⟨r, _, _, _, rfl⟩ := step_begin_inv h
    exact ⟨hfin, hset i _ (by simp [beginReq])⟩
  | write i k =>
    obtain ⟨r, q, hr, _, _, rfl⟩ := step_write_inv h
    exact ⟨hfin, hset i _ (by simp only [writeReq]; exact hns r (List.mem_of_getElem? hr))⟩
  | flush i =>
    simp only [step] at h
    cases hr : s.reqs[i]? with
    | none => simp [hr] at h
    | some r =>
      simp only [hr] at h
      split at h
      · simp only [seqStep] at h
        cases hq : Seq.step s.seq (.flush i) with
        | none => simp [hq] at h
        | some q =>
          simp only [hq, Option.map_some, Option.some.injEq] at h; subst h
          exact ⟨hfin, hns⟩
      · cases h
  | sock n =>
    simp only [step, seqStep] at h
    cases hq : Seq.step s.seq (.sock n) with
    | none => simp [hq] at h
    | some q =>
      simp only [hq, Option.map_some, Option.some.injEq] at h; subst h
      exact ⟨hfin, hns⟩
  | reads i =>
    obtain ⟨r, _, _, _, rfl⟩ := step_reads_inv h
    refine ⟨hfin, hset i _ ?_⟩
    have := par_readPhase_not_pending r.act r.body s.rest s.fin (by rw [hfin]; exact hf)
    simp [readsReq, this]
  | finish i =>
    obtain ⟨r, _, _, hc⟩ := step_finish_inv h
    rcases hc with ⟨_, _, _, rfl⟩ | rfl
    · exact ⟨hfin, hset i _ (by simp [finishReq])⟩
    · exact ⟨hfin, hset i _ (by simp [finishReq])⟩
  | drop i =>
    obtain ⟨r, _, _, _, hc⟩ := step_drop_inv h
    rcases hc with ⟨_, q, _, _, rfl⟩ | ⟨hd, rfl⟩
    · exact ⟨hfin, hset i _ (by simp)⟩
    · exact absurd hd (Body.drain_not_none _ _ _ _ (by rw [hfin]; exact hf))

theorem nostuck_reachable {bs : Bytes} {fin : EndState} {script : Script} {s : State}
    (h : Reachable bs fin script s) (hf : fin ≠ .open) : ∀ r ∈ s.reqs, r.stage ≠ .stuck := by
  obtain ⟨ls, hl⟩ := h
  exact (run_induction (fun s => s.fin = fin ∧ ∀ r ∈ s.reqs, r.stage ≠ .stuck)
    (fun _ _ _ hp hs => nostuck_step hf hp hs) ls _ _ ⟨rfl, fun r hm => by simp [init] at hm⟩ hl).2

end Lts.Par
end TH
