/- helper lemmas for C04 (Chunk): chunk encoder and chunk decoder -/
import TinyHttpModel.RespSpec
import TinyHttpModel.Lemmas.Digits
namespace TH

/-- wire form of a list of chunks. -/
def frames (cs : List Bytes) : Bytes := (cs.map chunkFrame).flatten

@[simp] theorem frames_nil : frames [] = [] := rfl

@[simp] theorem frames_cons (c : Bytes) (cs : List Bytes) :
    frames (c :: cs) = chunkFrame c ++ frames cs := by
  simp [frames]

theorem frames_append (as bs : List Bytes) : frames (as ++ bs) = frames as ++ frames bs := by
  simp [frames]

/-! ### the specification `Spec.enchunkAux` in terms of `frames` -/

/-- a short body is one chunk (or none). -/
theorem enchunkAux_short (fuel : Nat) (b : Bytes) (hf : 1 ≤ fuel) (hb : b.length ≤ chunkSize) :
    Spec.enchunkAux fuel b = if b = [] then [] else chunkFrame b := by
  cases fuel with
  | zero => omega
  | succ fuel =>
    cases b with
    | nil => simp [Spec.enchunkAux]
    | cons x xs =>
      have h1 : (x :: xs).take chunkSize = x :: xs := List.take_of_length_le hb
      have h2 : (x :: xs).drop chunkSize = [] := List.drop_of_length_le hb
      simp only [Spec.enchunkAux, h1, h2]
      cases fuel <;> simp [Spec.enchunkAux]

/-- full chunks in front are framed one by one. -/
theorem enchunkAux_full : ∀ (cs : List Bytes) (fuel : Nat) (b : Bytes),
    (∀ c ∈ cs, c.length = chunkSize) → cs.length ≤ fuel →
    Spec.enchunkAux fuel (cs.flatten ++ b) = frames cs ++ Spec.enchunkAux (fuel - cs.length) b := by
  intro cs
  induction cs with
  | nil => intro fuel b _ _; simp
  | cons c cs ih =>
    intro fuel b hall hlen
    cases fuel with
    | zero => simp at hlen
    | succ fuel =>
      have hc : c.length = chunkSize := hall c (by simp)
      have hne : c ≠ [] := by
        intro h; rw [h] at hc; simp [chunkSize] at hc
      have h1 : (c ++ (cs.flatten ++ b)).take chunkSize = c := by
        rw [← hc]; exact List.take_left
      have h2 : (c ++ (cs.flatten ++ b)).drop chunkSize = cs.flatten ++ b := by
        rw [← hc]; exact List.drop_left
      have hemp : (c ++ (cs.flatten ++ b)).isEmpty = false := by
        cases c with
        | nil => exact absurd rfl hne
        | cons _ _ => rfl
      simp only [List.flatten_cons, List.append_assoc, Spec.enchunkAux, hemp, h1, h2,
        frames_cons, List.length_cons, Nat.add_sub_add_right]
      rw [ih fuel b (fun c' hc' => hall c' (by simp [hc'])) (by simpa using hlen)]
      simp

/-- every body is cut into non-empty chunks. -/
theorem enchunkAux_chunks : ∀ (fuel : Nat) (body : Bytes), body.length < fuel →
    ∃ cs : List Bytes, (∀ c ∈ cs, c ≠ []) ∧ cs.flatten = body ∧
      Spec.enchunkAux fuel body = frames cs := by
  intro fuel
  induction fuel with
  | zero => intro body h; omega
  | succ fuel ih =>
    intro body h
    cases body with
    | nil => exact ⟨[], by simp, rfl, by simp [Spec.enchunkAux]⟩
    | cons x xs =>
      have hdl : ((x :: xs).drop chunkSize).length < fuel := by
        simp only [List.length_drop, List.length_cons, chunkSize]
        simp only [List.length_cons] at h
        omega
      obtain ⟨cs, hne, hfl, heq⟩ := ih _ hdl
      refine ⟨(x :: xs).take chunkSize :: cs, ?_, ?_, ?_⟩
      · intro c hc
        simp only [List.mem_cons] at hc
        cases hc with
        | inl h => subst h; simp [chunkSize]
        | inr h => exact hne c h
      · simp only [List.flatten_cons, hfl]
        exact List.take_append_drop _ _
      · simp [Spec.enchunkAux, heq]

/-! ### the encoder -/

theorem Enc.write_nil : ∀ (fuel : Nat) (e : Enc), Enc.write fuel e [] = e := by
  intro fuel e
  cases fuel with
  | zero => rfl
  | succ fuel => simp [Enc.write]

/-- weak invariant of the encoder state after the bytes `T` have been written. -/
def EncInv (e : Enc) (T : Bytes) : Prop :=
  ∃ cs : List Bytes, (∀ c ∈ cs, c.length = chunkSize) ∧ T = cs.flatten ++ e.buf ∧
    e.out = frames cs ∧ e.buf.length ≤ chunkSize

theorem Enc.write_inv : ∀ (fuel : Nat) (e : Enc) (data T : Bytes),
    EncInv e T →
    data.length + (if chunkSize ≤ e.buf.length then 1 else 0) < fuel →
    EncInv (Enc.write fuel e data) (T ++ data) ∧
      (data ≠ [] → (Enc.write fuel e data).buf ≠ []) := by
  intro fuel
  induction fuel with
  | zero => intro e data T _ h; omega
  | succ fuel ih =>
    intro e data T hinv hfuel
    obtain ⟨cs, hall, hT, hout, hlen⟩ := hinv
    simp only [Enc.write]
    by_cases hov : min (chunkSize - e.buf.length) data.length < data.length
    · -- overflow: the buffer is filled, sent, and the rest is written
      rw [if_pos hov]
      have hmin : min (chunkSize - e.buf.length) data.length = chunkSize - e.buf.length := by
        omega
      rw [hmin]
      have hfull : (e.buf ++ data.take (chunkSize - e.buf.length)).length = chunkSize := by
        simp only [List.length_append, List.length_take]; omega
      have hne : e.buf ++ data.take (chunkSize - e.buf.length) ≠ [] := by
        intro h; rw [h] at hfull; simp [chunkSize] at hfull
      have hsend : (Enc.mk e.out (e.buf ++ data.take (chunkSize - e.buf.length))).send =
          ⟨e.out ++ chunkFrame (e.buf ++ data.take (chunkSize - e.buf.length)), []⟩ := by
        simp only [Enc.send]
        rw [if_neg]
        simpa using hne
      rw [hsend]
      have hinv' : EncInv ⟨e.out ++ chunkFrame (e.buf ++ data.take (chunkSize - e.buf.length)), []⟩
          (T ++ data.take (chunkSize - e.buf.length)) := by
        refine ⟨cs ++ [e.buf ++ data.take (chunkSize - e.buf.length)], ?_, ?_, ?_, ?_⟩
        · intro c hc
          simp only [List.mem_append, List.mem_singleton] at hc
          cases hc with
          | inl h => exact hall c h
          | inr h => rw [h]; exact hfull
        · simp [hT]
        · simp [frames_append, hout]
        · simp
      have hdrop : (data.drop (chunkSize - e.buf.length)).length +
          (if chunkSize ≤ (Enc.mk (e.out ++ chunkFrame (e.buf ++ data.take (chunkSize - e.buf.length))) []).buf.length
            then 1 else 0) < fuel := by
        have : ¬ chunkSize ≤ 0 := by simp [chunkSize]
        simp only [List.length_drop, List.length_nil, if_neg this]
        split at hfuel <;> omega
      have hrec := ih _ (data.drop (chunkSize - e.buf.length)) _ hinv' hdrop
      rw [List.append_assoc, List.take_append_drop] at hrec
      refine ⟨hrec.1, fun _ => hrec.2 ?_⟩
      intro h
      have := congrArg List.length h
      simp only [List.length_drop, List.length_nil] at this
      omega
    · -- everything fits
      rw [if_neg hov]
      have hmin : min (chunkSize - e.buf.length) data.length = data.length := by omega
      rw [hmin, List.take_length]
      refine ⟨⟨cs, hall, ?_, hout, ?_⟩, ?_⟩
      · simp [hT]
      · simp only [List.length_append]; omega
      · intro hd; simp [hd]

/-- strong invariant: additionally the buffer is empty only if nothing was written. -/
def EncInv' (e : Enc) (T : Bytes) : Prop := EncInv e T ∧ (T ≠ [] → e.buf ≠ [])

theorem Enc.fold_inv : ∀ (pieces : List Bytes) (e : Enc) (T : Bytes), EncInv' e T →
    EncInv' (pieces.foldl (fun e p => Enc.write (p.length + 2) e p) e) (T ++ pieces.flatten) := by
  intro pieces
  induction pieces with
  | nil => intro e T h; simpa using h
  | cons p ps ih =>
    intro e T h
    simp only [List.foldl_cons, List.flatten_cons, ← List.append_assoc]
    apply ih
    by_cases hp : p = []
    · subst hp; simpa [Enc.write_nil] using h
    · have hfuel : p.length + (if chunkSize ≤ e.buf.length then 1 else 0) < p.length + 2 := by
        split <;> omega
      have := Enc.write_inv (p.length + 2) e p T h.1 hfuel
      exact ⟨this.1, fun _ => this.2 hp⟩

theorem length_le_flatten_full : ∀ (l : List Bytes), (∀ c ∈ l, c.length = chunkSize) →
    l.length ≤ l.flatten.length := by
  intro l
  induction l with
  | nil => simp
  | cons c l ih =>
    intro hl
    have h1 := hl c (by simp)
    have h2 := ih (fun c' hc' => hl c' (by simp [hc']))
    simp only [List.length_cons, List.flatten_cons, List.length_append]
    simp only [chunkSize] at h1
    omega

theorem Enc.finish_of_inv (e : Enc) (T : Bytes) (h : EncInv' e T) :
    e.finish = Spec.enchunk T := by
  obtain ⟨⟨cs, hall, hT, hout, hlen⟩, hne⟩ := h
  unfold Enc.finish Spec.enchunk
  congr 1
  have hfl := length_le_flatten_full cs hall
  have hTl : T.length = cs.flatten.length + e.buf.length := by rw [hT, List.length_append]
  have hcs : cs.length ≤ T.length + 1 := by omega
  have hfuel : 1 ≤ T.length + 1 - cs.length := by omega
  have hE := enchunkAux_full cs (T.length + 1) e.buf hall hcs
  rw [← hT] at hE
  rw [hE, enchunkAux_short _ _ hfuel hlen, ← hout]
  unfold Enc.send
  by_cases hb : e.buf = []
  · simp [hb]
  · have : e.buf.isEmpty = false := by simpa using hb
    simp [hb, this]

/-! ### the client's line splitting on encoder output -/

theorem splitLF_append (l r : Bytes) (h : ∀ b ∈ l, b ≠ 10) :
    Client.splitLF (l ++ 10 :: r) = some (l, r) := by
  induction l with
  | nil => simp [Client.splitLF]
  | cons b bs ih =>
    have hb : b ≠ 10 := h b (by simp)
    simp only [List.cons_append, Client.splitLF, if_neg hb]
    rw [ih (fun b' hb' => h b' (by simp [hb']))]

theorem stripCR_snoc (l : Bytes) : Client.stripCR (l ++ [13]) = l := by
  induction l with
  | nil => simp [Client.stripCR]
  | cons b bs ih =>
    cases bs with
    | nil => simp [Client.stripCR]
    | cons c cs =>
      simp only [List.cons_append] at ih ⊢
      simp only [Client.stripCR, ih]

theorem splitLine_crlf (l r : Bytes) (h : ∀ b ∈ l, b ≠ 10) :
    Client.splitLine (l ++ crlf ++ r) = some (l, r) := by
  have : l ++ crlf ++ r = (l ++ [13]) ++ 10 :: r := by simp [crlf]
  rw [this]
  unfold Client.splitLine
  rw [splitLF_append (l ++ [13]) r (by
    intro b hb
    simp only [List.mem_append, List.mem_singleton] at hb
    cases hb with
    | inl hb => exact h b hb
    | inr hb => omega)]
  simp [stripCR_snoc]

theorem splitFirst_none (c : Nat) (l : Bytes) (h : ∀ b ∈ l, b ≠ c) :
    splitFirst c l = (l, none) := by
  induction l with
  | nil => rfl
  | cons b bs ih =>
    have hb : b ≠ c := h b (by simp)
    simp only [splitFirst, if_neg hb]
    rw [ih (fun b' hb' => h b' (by simp [hb']))]

theorem trimOwsStart_id (l : Bytes) (h : ∀ b ∈ l, Client.isOws b = false) :
    Client.trimOwsStart l = l := by
  cases l with
  | nil => rfl
  | cons b bs => simp [Client.trimOwsStart, h b (by simp)]

theorem trimOwsEnd_id (l : Bytes) (h : ∀ b ∈ l, Client.isOws b = false) :
    Client.trimOwsEnd l = l := by
  induction l with
  | nil => rfl
  | cons b bs ih =>
    have hb := h b (by simp)
    simp only [Client.trimOwsEnd]
    rw [ih (fun b' hb' => h b' (by simp [hb']))]
    cases bs <;> simp [hb]

theorem parseChunkSize_toHex (n : Nat) : Client.parseChunkSize (toHex n) = some n := by
  have hd := toHex_hexdigits n
  unfold Client.parseChunkSize
  rw [splitFirst_none 59 (toHex n) (fun b hb => by have := hd b hb; omega)]
  have hows : ∀ b ∈ toHex n, Client.isOws b = false := by
    intro b hb
    have := hd b hb
    simp only [Client.isOws, Bool.or_eq_false_iff, beq_eq_false_iff_ne]
    omega
  simp only [Client.trimOws]
  rw [trimOwsStart_id _ hows, trimOwsEnd_id _ hows, ofHex_toHex]

/-- the decoder on the terminal chunk. -/
theorem dechunk_terminal (fuel : Nat) (rest : Bytes) :
    Client.dechunk (fuel + 1) (b!"0\r\n\r\n" ++ rest) = some ([], rest) := by
  show Client.dechunk (fuel + 1) (48 :: 13 :: 10 :: 13 :: 10 :: rest) = some ([], rest)
  have h1 : Client.splitLine (48 :: 13 :: 10 :: 13 :: 10 :: rest) = some ([48], 13 :: 10 :: rest) := by
    simp [Client.splitLine, Client.splitLF, Client.stripCR]
  have h2 : Client.parseChunkSize [48] = some 0 := by decide
  have h3 : Client.splitLine (13 :: 10 :: rest) = some ([], rest) := by
    simp [Client.splitLine, Client.splitLF, Client.stripCR]
  simp only [Client.dechunk, h1, h2, List.length_cons, Client.skipTrailers, h3]
  simp

/-- the decoder on one non-empty chunk. -/
theorem dechunk_frame (fuel : Nat) (c tail : Bytes) (hc : c ≠ []) :
    Client.dechunk (fuel + 1) (chunkFrame c ++ tail) =
      (Client.dechunk fuel tail).map (fun (p, r) => (c ++ p, r)) := by
  have h1 : Client.splitLine (chunkFrame c ++ tail) = some (toHex c.length, c ++ crlf ++ tail) := by
    have : chunkFrame c ++ tail = toHex c.length ++ crlf ++ (c ++ crlf ++ tail) := by
      simp [chunkFrame]
    rw [this]
    exact splitLine_crlf _ _ (fun b hb => by have := toHex_hexdigits _ b hb; omega)
  obtain ⟨k, hk⟩ : ∃ k, c.length = k + 1 := by
    cases c with
    | nil => exact absurd rfl hc
    | cons x xs => exact ⟨xs.length, rfl⟩
  have h2 : Client.parseChunkSize (toHex c.length) = some (k + 1) := by
    rw [parseChunkSize_toHex, hk]
  have h3 : ¬ (c ++ crlf ++ tail).length < k + 1 + 2 := by
    simp only [List.length_append, crlf, List.length_cons, List.length_nil]; omega
  have h4 : (c ++ crlf ++ tail).take (k + 1) = c := by
    rw [List.append_assoc, ← hk]; exact List.take_left
  have h5 : (c ++ crlf ++ tail).drop (k + 1) = 13 :: 10 :: tail := by
    rw [List.append_assoc, ← hk, List.drop_left]; rfl
  simp only [Client.dechunk, h1, h2, if_neg h3, h4, h5]

theorem dechunk_frames : ∀ (cs : List Bytes) (fuel : Nat) (rest : Bytes),
    (∀ c ∈ cs, c ≠ []) → cs.length < fuel →
    Client.dechunk fuel (frames cs ++ b!"0\r\n\r\n" ++ rest) = some (cs.flatten, rest) := by
  intro cs
  induction cs with
  | nil =>
    intro fuel rest _ hf
    cases fuel with
    | zero => simp at hf
    | succ fuel => simpa using dechunk_terminal fuel rest
  | cons c cs ih =>
    intro fuel rest hne hf
    cases fuel with
    | zero => simp at hf
    | succ fuel =>
      simp only [frames_cons, List.append_assoc]
      rw [dechunk_frame fuel c _ (hne c (by simp))]
      have := ih fuel rest (fun c' hc' => hne c' (by simp [hc'])) (by simpa using hf)
      simp only [List.append_assoc] at this
      rw [this]
      simp

theorem length_le_frames (cs : List Bytes) : cs.length ≤ (frames cs).length := by
  induction cs with
  | nil => simp
  | cons c cs ih =>
    simp only [frames_cons, List.length_cons, List.length_append, chunkFrame, crlf,
      List.length_nil]
    omega

end TH
