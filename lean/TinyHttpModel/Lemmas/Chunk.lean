/- helper lemmas for C04 (Chunk) -/
import TinyHttpModel.RespSpec
namespace TH
end TH
