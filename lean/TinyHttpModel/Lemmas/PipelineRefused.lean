/- helper lemmas for Props/C10 pipeline_with_refused_requests: pipelines that mix ordinary requests
   with requests the connection thread refuses itself (505) and goes on after -/
import TinyHttpModel.WireSpec
import TinyHttpModel.Lemmas.Pipeline
import TinyHttpModel.Lemmas.HeadParse

namespace TH

/-! ### parsing a head in a version above HTTP/1.1 -/

theorem versionToken_20 : Spec.versionToken ⟨2, 0⟩ = b!"HTTP/2.0" := by decide
theorem versionToken_30 : Spec.versionToken ⟨3, 0⟩ = b!"HTTP/3.0" := by decide

/-- among the versions the request-line parser recognises, those above the maximum are 2.0 and 3.0. -/
theorem version_above_cases (v : Version)
    (hrec : v ∈ Extracted.versionTable.map (fun e => (⟨e.2.1, e.2.2⟩ : Version)))
    (hver : (⟨Extracted.maxVersion.1, Extracted.maxVersion.2⟩ : Version).lt v = true) :
    v = ⟨2, 0⟩ ∨ v = ⟨3, 0⟩ := by
  simp only [Extracted.versionTable, List.map_cons, List.map_nil, List.mem_cons, List.not_mem_nil,
    or_false] at hrec
  rcases hrec with rfl | rfl | rfl | rfl | rfl
  · exact absurd hver (by decide)
  · exact absurd hver (by decide)
  · exact absurd hver (by decide)
  · exact Or.inl rfl
  · exact Or.inr rfl

/-- `readHead_render` for a head that is well-formed apart from its version (`Spec.wfHead` holds of
    it once the version is replaced by 1.1), in version 2.0 or 3.0: it is parsed back exactly. -/
theorem readHead_render_above (h : Head) (ows : List (Bytes × Bytes)) (rest : Bytes) (fin : EndState)
    (hwf : Spec.wfHead { h with version := ⟨1, 1⟩ } = true)
    (hv : h.version = ⟨2, 0⟩ ∨ h.version = ⟨3, 0⟩)
    (hows : ∀ o ∈ ows, Spec.isOwsList o.1 = true ∧ Spec.isOwsList o.2 = true) :
    readHead (Spec.renderHead h ows ++ rest) fin = .ok (h, rest) := by
  obtain ⟨hm0, hm1, hm2, hu1, hu2, _, hhs⟩ := wfHead_elim _ hwf
  simp only at hm0 hm1 hm2 hu1 hu2 hhs
  obtain ⟨m, u, v, hs⟩ := h
  simp only at hm0 hm1 hm2 hu1 hu2 hhs hv
  have hbytes : Spec.renderHead ⟨m, u, v, hs⟩ ows ++ rest =
      (m.token ++ 32 :: (u ++ 32 :: Spec.versionToken v)) ++ 13 :: 10 ::
        (Spec.renderHeaders hs ows ++ 13 :: 10 :: rest) := by
    simp [Spec.renderHead, crlf]
  have hsafe : ∀ b ∈ Spec.versionToken v, b ≠ 10 ∧ b < 128 := by
    rcases hv with rfl | rfl
    · rw [versionToken_20]; decide
    · rw [versionToken_30]; decide
  have hparse : parseRequestLine (m.token ++ 32 :: (u ++ 32 :: Spec.versionToken v)) = some (⟨m.token⟩, u, v) := by
    rcases hv with rfl | rfl
    · rw [versionToken_20]
      exact parseRequestLine_fields m.token u _ _ hm0 hm2 hu2 (by decide) (by decide) (by decide) (by decide)
    · rw [versionToken_30]
      exact parseRequestLine_fields m.token u _ _ hm0 hm2 hu2 (by decide) (by decide) (by decide) (by decide)
  have hline : ∀ b ∈ m.token ++ 32 :: (u ++ 32 :: Spec.versionToken v), b ≠ 10 ∧ b < 128 := by
    intro b hb
    simp only [List.mem_append, List.mem_cons] at hb
    rcases hb with hb | rfl | hb | rfl | hb
    · exact hm1 b hb
    · decide
    · exact hu1 b hb
    · decide
    · exact hsafe b hb
  rw [hbytes, readHead, readLine_line _ _ fin hline]
  simp only [hparse]
  rw [readHeaders_render v rest fin hs ows _ ?_ hhs hows]
  · have hlen := length_le_renderHeaders hs ows
    simp only [List.length_append]
    omega

/-! ### discarding the body of a request that is never delivered -/

/-- the discard of the body reader the connection thread built for a request it then refuses:
    a Content-Length body `B` that is entirely on the wire (buffered at parse time or streamed), or
    no body at all, leaves the stream at the first byte after the body. -/
theorem drain_initialBody_sent (k : BodyKind) (B after : Bytes) (fin : EndState)
    (hk : k = .buffered B.length ∨ k = .limited B.length ∨ (B = [] ∧ (k = .empty ∨ k = .upgrade))) :
    Body.drain ((initialBody k (B ++ after)).2.length + 2) (initialBody k (B ++ after)).1
      (initialBody k (B ++ after)).2 fin = some after := by
  rcases hk with rfl | rfl | ⟨rfl, rfl | rfl⟩
  · have hib : initialBody (.buffered B.length) (B ++ after) = (.cursor B, after) := by simp [initialBody]
    rw [hib]
    exact drain_cursor _ B after fin
  · have hib : initialBody (.limited B.length) (B ++ after) = (.limited B.length, B ++ after) := rfl
    rw [hib]
    show Body.drain ((B ++ after).length + 2) (.limited B.length) (B ++ after) fin = some after
    rw [drain_limited _ _ _ fin (by omega) (by simp)]
    simp
  · exact drain_done _ after fin
  · show Body.drain (after.length + 2) .raw after fin = some after
    simp [Body.drain]

/-- …and a chunked body (well-formed chunks, well-formed terminal chunk) that is entirely on the
    wire is discarded up to and including the terminal chunk. -/
theorem drain_initialBody_chunked (cs : List Spec.SentChunk) (zero after : Bytes) (fin : EndState)
    (hcs : ∀ c ∈ cs, Spec.wfChunk c = true) (hz : ZeroOk zero) :
    Body.drain ((initialBody .chunked (Spec.renderChunked cs zero ++ after)).2.length + 2)
      (initialBody .chunked (Spec.renderChunked cs zero ++ after)).1
      (initialBody .chunked (Spec.renderChunked cs zero ++ after)).2 fin = some after := by
  show Body.drain ((Spec.renderChunked cs zero ++ after).length + 2) (.chunked none)
    (Spec.renderChunked cs zero ++ after) fin = some after
  exact chunked_drain zero after hz fin _ none _ _ (ChunkPos.line cs hcs) (by omega)

/-! ### the statuses of a mixed pipeline -/

/-- the statuses the server generates for a pipeline of items of which some are delivered to the
    application (`isGood`: the handler's own final status — none if it takes the raw writer) and
    the others refused by the connection thread (505); `idx` is the index of the script entry that
    handles the next delivered request. -/
def mixedStatuses {α : Type} (isGood : α → Bool) (script : Script) : Nat → List α → List Nat
  | _, [] => []
  | idx, x :: xs =>
    if isGood x then Spec.finishStatus (script idx).fin ++ mixedStatuses isGood script (idx + 1) xs
    else 505 :: mixedStatuses isGood script idx xs

/-- at least one 505 per refused item, whatever the handlers answer. -/
theorem mixedStatuses_count_ge {α : Type} (isGood : α → Bool) (script : Script) (items : List α) :
    ∀ idx, (items.filter (fun x => !isGood x)).length ≤
      ((mixedStatuses isGood script idx items).filter (· == 505)).length := by
  induction items with
  | nil => intro idx; simp
  | cons x xs ih =>
    intro idx
    cases hx : isGood x
    · have := ih idx
      simp only [mixedStatuses, hx, Bool.false_eq_true, if_false, Bool.not_false, List.filter_cons_of_pos,
        List.length_cons, beq_self_eq_true]
      omega
    · have := ih (idx + 1)
      simp only [mixedStatuses, hx, if_true, Bool.not_true, Bool.false_eq_true, not_false_eq_true,
        List.filter_cons_of_neg, List.filter_append, List.length_append]
      omega

/-- exactly one 505 per refused item if no handler answers 505 itself. -/
theorem mixedStatuses_count_eq {α : Type} (isGood : α → Bool) (script : Script) (items : List α)
    (hno : ∀ i, 505 ∉ Spec.finishStatus (script i).fin) :
    ∀ idx, ((mixedStatuses isGood script idx items).filter (· == 505)).length =
      (items.filter (fun x => !isGood x)).length := by
  induction items with
  | nil => intro idx; simp [mixedStatuses]
  | cons x xs ih =>
    intro idx
    cases hx : isGood x
    · simp only [mixedStatuses, hx, Bool.false_eq_true, if_false, Bool.not_false, List.filter_cons_of_pos,
        List.length_cons, beq_self_eq_true, ih idx]
    · have h0 : (Spec.finishStatus (script idx).fin).filter (· == 505) = [] := by
        rw [List.filter_eq_nil_iff]
        intro a ha h5
        have : a = 505 := by simpa using h5
        exact hno idx (this ▸ ha)
      simp only [mixedStatuses, hx, if_true, Bool.not_true, Bool.false_eq_true, not_false_eq_true,
        List.filter_cons_of_neg, List.filter_append, List.length_append, h0, List.length_nil, Nat.zero_add,
        ih (idx + 1)]

/-- one status per item if no handler takes the raw writer. -/
theorem mixedStatuses_length {α : Type} (isGood : α → Bool) (script : Script) (items : List α)
    (hnw : ∀ i ops, (script i).fin ≠ .writer ops) :
    ∀ idx, (mixedStatuses isGood script idx items).length = items.length := by
  induction items with
  | nil => intro idx; rfl
  | cons x xs ih =>
    intro idx
    cases hx : isGood x
    · simp only [mixedStatuses, hx, Bool.false_eq_true, if_false, List.length_cons, ih idx]
    · have h0 : (Spec.finishStatus (script idx).fin).length = 1 := by
        cases hf : (script idx).fin with
        | writer ops => exact absurd hf (hnw idx ops)
        | _ => rfl
      simp only [mixedStatuses, hx, if_true, List.length_append, h0, ih (idx + 1), List.length_cons]
      omega

/-- only refused items: nothing but 505s. -/
theorem mixedStatuses_all_refused {α : Type} (isGood : α → Bool) (script : Script) (items : List α)
    (hall : ∀ x ∈ items, isGood x = false) :
    ∀ idx, mixedStatuses isGood script idx items = List.replicate items.length 505 := by
  induction items with
  | nil => intro idx; rfl
  | cons x xs ih =>
    intro idx
    have hx := hall x (by simp)
    simp only [mixedStatuses, hx, Bool.false_eq_true, if_false, List.length_cons, List.replicate_succ,
      ih (fun y hy => hall y (by simp [hy])) idx]

theorem mixedStatuses_append {α : Type} (isGood : α → Bool) (script : Script) (xs ys : List α) :
    ∀ idx, mixedStatuses isGood script idx (xs ++ ys) =
      mixedStatuses isGood script idx xs ++
        mixedStatuses isGood script (idx + (xs.filter isGood).length) ys := by
  induction xs with
  | nil => intro idx; simp [mixedStatuses]
  | cons x xs ih =>
    intro idx
    cases hx : isGood x
    · simp only [List.cons_append, mixedStatuses, hx, Bool.false_eq_true, if_false, ih idx, List.cons_append,
        not_false_eq_true, List.filter_cons_of_neg]
    · have : idx + 1 + (xs.filter isGood).length = idx + ((xs.filter isGood).length + 1) := by omega
      simp only [List.cons_append, mixedStatuses, hx, if_true, ih (idx + 1), List.append_assoc,
        List.filter_cons_of_pos, List.length_cons, this]

/-! ### the whole pipeline -/

/-- a pipeline of `k` messages of at least one byte each is at least `k` bytes long. -/
theorem mixed_pipeline_length_ge {α : Type} (wire : α → Bytes) (items : List α)
    (hpos : ∀ x ∈ items, 0 < (wire x).length) :
    items.length ≤ ((items.map wire).flatten).length := by
  induction items with
  | nil => simp
  | cons x xs ih =>
    have := hpos x (by simp)
    have := ih (fun y hy => hpos y (by simp [hy]))
    simp only [List.map_cons, List.flatten_cons, List.length_append, List.length_cons]
    omega

/-- The induction behind `pipeline_with_refused_requests`, abstracted from the kind of item:
    `items` are messages with a head and bytes on the wire; on a *good* one an iteration of the
    loop — in any state, with any script, followed by any bytes — delivers its head, generates the
    handler's final status and continues right after its wire bytes with the next script entry
    (`hgood`); on a *refused* one it delivers nothing, generates the 505 and continues right after
    its wire bytes with the same script entry (`hbad`).  Then the loop started in any state with
    any script index and enough fuel arrives at the bytes after the pipeline having delivered
    exactly the heads of the good items, in order, and generated exactly `mixedStatuses`. -/
theorem runLoop_mixed_pipeline {α : Type} (isGood : α → Bool) (head : α → Head) (wire : α → Bytes)
    (items : List α) :
    (∀ x ∈ items, isGood x = true →
      ∀ (fuel idx : Nat) (s : St) (rest : Bytes) (fin : EndState) (script : Script),
      ∃ s' : St, runLoop (fuel + 1) idx s (wire x ++ rest) fin script =
          runLoop fuel (idx + 1) s' rest fin script ∧
        (∃ d : Delivered, s'.delivered = s.delivered ++ [d] ∧
          (d.method, d.url, d.version, d.headers) =
            ((head x).method, (head x).url, (head x).version, (head x).headers)) ∧
        s'.statuses = s.statuses ++ Spec.finishStatus (script idx).fin ∧
        (∃ o, s'.out = s.out ++ o)) →
    (∀ x ∈ items, isGood x = false →
      ∀ (fuel idx : Nat) (s : St) (rest : Bytes) (fin : EndState) (script : Script),
      runLoop (fuel + 1) idx s (wire x ++ rest) fin script =
        runLoop fuel idx (s.emit 505 (some print505) true) rest fin script) →
    ∀ (fuel idx : Nat) (s : St) (rest : Bytes) (fin : EndState) (script : Script),
    items.length ≤ fuel →
    ∃ s' : St,
      runLoop fuel idx s ((items.map wire).flatten ++ rest) fin script =
        runLoop (fuel - items.length) (idx + (items.filter isGood).length) s' rest fin script ∧
      s'.delivered.map (fun d => (d.method, d.url, d.version, d.headers)) =
        s.delivered.map (fun d => (d.method, d.url, d.version, d.headers)) ++
          (items.filter isGood).map
            (fun x => ((head x).method, (head x).url, (head x).version, (head x).headers)) ∧
      s'.statuses = s.statuses ++ mixedStatuses isGood script idx items ∧
      (∃ o, s'.out = s.out ++ o) := by
  induction items with
  | nil =>
    intro _ _ fuel idx s rest fin script _
    exact ⟨s, by simp, by simp, by simp [mixedStatuses], ⟨[], by simp⟩⟩
  | cons x xs ih =>
    intro hgood hbad fuel idx s rest fin script hfuel
    obtain ⟨f, rfl⟩ : ∃ f, fuel = f + 1 := ⟨fuel - 1, by simp at hfuel; omega⟩
    have ih' := ih (fun y hy => hgood y (by simp [hy])) (fun y hy => hbad y (by simp [hy]))
    cases hx : isGood x
    · have hrun1 := hbad x (by simp) hx f idx s ((xs.map wire).flatten ++ rest) fin script
      obtain ⟨s2, hrun2, hdel2, hst2, ⟨o2, hout2⟩⟩ :=
        ih' f idx (s.emit 505 (some print505) true) rest fin script (by simp at hfuel; omega)
      refine ⟨s2, ?_, ?_, ?_, ⟨print505 ++ o2, ?_⟩⟩
      · simp only [List.map_cons, List.flatten_cons, List.append_assoc, List.length_cons, hx,
          Bool.false_eq_true, not_false_eq_true, List.filter_cons_of_neg]
        rw [hrun1, hrun2]
        congr 1
        omega
      · rw [hdel2]
        simp only [hx, Bool.false_eq_true, not_false_eq_true, List.filter_cons_of_neg]
        rfl
      · rw [hst2]
        simp only [mixedStatuses, hx, Bool.false_eq_true, if_false]
        simp [St.emit]
      · rw [hout2]
        simp [St.emit]
    · obtain ⟨s1, hrun1, ⟨d, hdel1, hd⟩, hst1, ⟨o1, hout1⟩⟩ :=
        hgood x (by simp) hx f idx s ((xs.map wire).flatten ++ rest) fin script
      obtain ⟨s2, hrun2, hdel2, hst2, ⟨o2, hout2⟩⟩ :=
        ih' f (idx + 1) s1 rest fin script (by simp at hfuel; omega)
      refine ⟨s2, ?_, ?_, ?_, ⟨o1 ++ o2, by rw [hout2, hout1, List.append_assoc]⟩⟩
      · simp only [List.map_cons, List.flatten_cons, List.append_assoc, List.length_cons, hx,
          List.filter_cons_of_pos]
        rw [hrun1, hrun2]
        congr 1 <;> omega
      · rw [hdel2, hdel1]
        simp [hx, hd]
      · rw [hst2, hst1]
        simp only [mixedStatuses, hx, if_true, List.append_assoc]

end TH
