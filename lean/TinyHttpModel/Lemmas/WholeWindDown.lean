/- helper lemmas: winding the whole server down (Lts.Whole) — once every client is gone, the
   pool's own steps, pushes and task ends bring every worker to rest (exited, or — in a live pool —
   one of the at most `MIN_THREADS` untimed waiters), with everything the clients sent queued.

   Route: a measure `mu` (ranks of the workers' phases + queued tasks + requests not queued yet),
   a progress lemma (a worker that is not at rest has a short run that decreases `mu`), induction. -/
import TinyHttpModel.Lemmas.WholeInvBase
import TinyHttpModel.Lemmas.WholeInvData
import TinyHttpModel.Lemmas.WholeInvPool
import TinyHttpModel.Lemmas.PoolInvWait
import TinyHttpModel.Lemmas.PoolInvActive

namespace TH.Lts.Pool

/-! ### after `dropPool`, `active_tasks` stays huge: it only goes down by one per exited worker -/

def isExited : WPhase → Bool
  | .exited => true
  | _ => false

structure Inv4 (s : State) : Prop where
  da : s.dropped = true → droppedActive ≤ s.active + count s isExited

theorem inv4_init : Inv4 init := by
  constructor; intro h; cases h

local macro "setc4 " hph:ident p:term : tactic => `(tactic| (
  have e1 := filter_set_length' isExited _ _ $p _ $hph (by simp)
  simp only [isExited] at e1
  constructor; intro hd; simp_all [count] <;> omega))

theorem inv4_step {s s' : State} {l : Label} (hi : Inv4 s) (h : step s l = some s') : Inv4 s' := by
  obtain ⟨da⟩ := hi
  simp only [count] at da
  cases step_sound h with
  | dispNew k hd hc => constructor; intro hd'; simp_all
  | dispQNone k hd hc hn => constructor; intro hd'; simp_all
  | dispQSome k w dl hd hc hph => constructor; intro hd'; simp_all
  | beginSome w k hph => setc4 hph (.running k)
  | beginNone w hph => setc4 hph .seeking
  | finish w k hph => setc4 hph .seeking
  | seekTake w k rest hph hp => setc4 hph (.running k)
  | seekWaitU w hph hp ha => setc4 hph (.waiting none)
  | seekWaitT w hph hp ha => setc4 hph (.waiting (some (s.now + idleNs)))
  | wokenExit w hph hp => setc4 hph .exited
  | wokenTake w k b rest hph hp => setc4 hph (.running k)
  | wokenWaitU w hph hp ha => setc4 hph (.waiting none)
  | wokenWaitT w hph hp ha => setc4 hph (.waiting (some (s.now + idleNs)))
  | wakeTimeout w d hph hd => setc4 hph (.woken true)
  | wakeSpurious w dl hph => setc4 hph (.woken false)
  | tick d => constructor; intro hd; simp_all [count]
  | dropPool => constructor; intro _; simp [count]

theorem inv4_reachable {s : State} (h : Reachable s) : Inv4 s :=
  reachable_invariant Inv4 inv4_init (fun _ _ _ hi h => inv4_step hi h) s h

/-- in a dropped pool with fewer than a billion threads, every wait is timed -/
theorem dropped_active_big {s : State} (h : Reachable s) (hd : s.dropped = true)
    (hb : s.workers.length + minThreads < droppedActive) : minThreads < s.active := by
  have h1 := (inv4_reachable h).da hd
  have h2 : count s isExited ≤ s.workers.length := List.length_filter_le _ _
  omega

/-! ### the steps of the pool that do not change `dropped` / the number of threads -/

theorem step_pres {s s' : State} {l : Label} (h : step s l = some s')
    (hnd : l ≠ .dropPool) (hnn : ∀ k b, l ≠ .dispatch k b) :
    s'.dropped = s.dropped ∧ s'.workers.length = s.workers.length := by
  cases step_sound h with
  | dispNew k hd hc => exact absurd rfl (hnn _ _)
  | dispQNone k hd hc hn => exact absurd rfl (hnn _ _)
  | dispQSome k w dl hd hc hph => exact absurd rfl (hnn _ _)
  | dropPool => exact absurd rfl hnd
  | _ => simp

/-! ### tasks in the pool come from dispatches -/

theorem placed_rev_set {p p' : State} {k w : Nat} {q : WPhase} (h : Placed p' k)
    (hw : p'.workers = p.workers.set w q) (hwl : w < p.workers.length)
    (hpend : k ∈ p'.pending → k ∈ p.pending)
    (hnew : q = .starting (some k) ∨ q = .running k → Placed p k) : Placed p k := by
  rcases h with hp | ⟨u, hu⟩ | ⟨u, hu⟩
  · exact .inl (hpend hp)
  · by_cases huw : u = w
    · subst huw
      rw [phaseOf_of_set_self hw hwl] at hu
      exact hnew (.inl hu)
    · rw [phaseOf_of_set_ne hw huw] at hu
      exact .inr (.inl ⟨u, hu⟩)
  · by_cases huw : u = w
    · subst huw
      rw [phaseOf_of_set_self hw hwl] at hu
      exact hnew (.inr hu)
    · rw [phaseOf_of_set_ne hw huw] at hu
      exact .inr (.inr ⟨u, hu⟩)

theorem placed_rev_same {p p' : State} {k : Nat} (h : Placed p' k)
    (hw : p'.workers = p.workers) (hpend : k ∈ p'.pending → k ∈ p.pending) : Placed p k := by
  rcases h with hp | ⟨u, hu⟩ | ⟨u, hu⟩
  · exact .inl (hpend hp)
  · exact .inr (.inl ⟨u, by rw [← phaseOf_of_workers_eq hw, hu]⟩)
  · exact .inr (.inr ⟨u, by rw [← phaseOf_of_workers_eq hw, hu]⟩)

theorem phaseOf_dropMap_rev {p p' : State}
    (hw : p'.workers = p.workers.map (fun x => if isWaiting x then WPhase.woken false else x))
    (u : Nat) (x : WPhase) (hx : isWoken x = false) (hne : x ≠ .exited) (hu : phaseOf p' u = x) :
    phaseOf p u = x := by
  have hl' := lt_of_phaseOf_ne (by rw [hu]; exact hne)
  have hl : u < p.workers.length := by rw [hw] at hl'; simpa using hl'
  rw [phaseOf_eq_getElem hl'] at hu
  rw [phaseOf_eq_getElem hl]
  simp only [hw, List.getElem_map] at hu
  cases hq : p.workers[u] with
  | waiting dl =>
    simp only [hq, isWaiting, if_true] at hu
    subst hu
    cases hx
  | _ => simpa [hq, isWaiting] using hu

theorem phaseOf_append_rev {p p' : State} {y : WPhase} (hw : p'.workers = p.workers ++ [y])
    {u : Nat} {x : WPhase} (hne : x ≠ .exited) (hu : phaseOf p' u = x) :
    phaseOf p u = x ∨ y = x := by
  have hl' := lt_of_phaseOf_ne (by rw [hu]; exact hne)
  rw [phaseOf_eq_getElem hl'] at hu
  by_cases hl : u < p.workers.length
  · left
    rw [phaseOf_eq_getElem hl, ← hu]
    simp [hw, List.getElem_append_left hl]
  · right
    rw [← hu]
    simp only [hw, List.length_append, List.length_singleton] at hl'
    have : u = p.workers.length := by omega
    subst this
    simp [hw]

/-- a task that is in the pool after a step was there before, or has just been dispatched -/
theorem placed_step_rev {p p' : State} {l : Label} {k : Nat} (h : Placed p' k)
    (hs : step p l = some p') : Placed p k ∨ ∃ b, l = .dispatch k b := by
  cases step_sound hs with
  | dispNew k' hd hc =>
    rcases h with hp | ⟨u, hu⟩ | ⟨u, hu⟩
    · exact .inl (.inl hp)
    · rcases phaseOf_append_rev rfl (by simp) hu with h1 | h1
      · exact .inl (.inr (.inl ⟨u, h1⟩))
      · simp only [WPhase.starting.injEq, Option.some.injEq] at h1
        subst h1; exact .inr ⟨_, rfl⟩
    · rcases phaseOf_append_rev rfl (by simp) hu with h1 | h1
      · exact .inl (.inr (.inr ⟨u, h1⟩))
      · cases h1
  | dispQNone k' hd hc hn =>
    by_cases hk : k = k'
    · subst hk; exact .inr ⟨_, rfl⟩
    · refine .inl (placed_rev_same h rfl ?_)
      intro hm
      rcases List.mem_append.mp hm with hm | hm
      · exact hm
      · exact absurd (List.mem_singleton.mp hm) hk
  | dispQSome k' w dl hd hc hph =>
    by_cases hk : k = k'
    · subst hk; exact .inr ⟨_, rfl⟩
    · refine .inl (placed_rev_set h rfl (lt_of_phaseOf_ne (by rw [hph]; simp)) ?_ (by simp))
      intro hm
      rcases List.mem_append.mp hm with hm | hm
      · exact hm
      · exact absurd (List.mem_singleton.mp hm) hk
  | beginSome w k' hph =>
    refine .inl (placed_rev_set h rfl (lt_of_phaseOf_ne (by rw [hph]; simp)) (fun hp => hp) ?_)
    intro hq
    simp only [reduceCtorEq, WPhase.running.injEq, false_or] at hq
    subst hq
    exact .inr (.inl ⟨w, hph⟩)
  | beginNone w hph =>
    exact .inl (placed_rev_set h rfl (lt_of_phaseOf_ne (by rw [hph]; simp)) (fun hp => hp) (by simp))
  | finish w k' hph =>
    exact .inl (placed_rev_set h rfl (lt_of_phaseOf_ne (by rw [hph]; simp)) (fun hp => hp) (by simp))
  | seekTake w k' rest hph hp =>
    refine .inl (placed_rev_set h rfl (lt_of_phaseOf_ne (by rw [hph]; simp)) ?_ ?_)
    · intro hm; rw [hp]; exact List.mem_cons_of_mem _ hm
    · intro hq
      simp only [reduceCtorEq, WPhase.running.injEq, false_or] at hq
      subst hq
      exact .inl (by rw [hp]; exact List.mem_cons_self)
  | seekWaitU w hph hp ha =>
    exact .inl (placed_rev_set h rfl (lt_of_phaseOf_ne (by rw [hph]; simp)) (fun hp => hp) (by simp))
  | seekWaitT w hph hp ha =>
    exact .inl (placed_rev_set h rfl (lt_of_phaseOf_ne (by rw [hph]; simp)) (fun hp => hp) (by simp))
  | wokenExit w hph hp =>
    exact .inl (placed_rev_set h rfl (lt_of_phaseOf_ne (by rw [hph]; simp)) (fun hp => hp) (by simp))
  | wokenTake w k' b rest hph hp =>
    refine .inl (placed_rev_set h rfl (lt_of_phaseOf_ne (by rw [hph]; simp)) ?_ ?_)
    · intro hm; rw [hp]; exact List.mem_cons_of_mem _ hm
    · intro hq
      simp only [reduceCtorEq, WPhase.running.injEq, false_or] at hq
      subst hq
      exact .inl (by rw [hp]; exact List.mem_cons_self)
  | wokenWaitU w hph hp ha =>
    exact .inl (placed_rev_set h rfl (lt_of_phaseOf_ne (by rw [hph]; simp)) (fun hp => hp) (by simp))
  | wokenWaitT w hph hp ha =>
    exact .inl (placed_rev_set h rfl (lt_of_phaseOf_ne (by rw [hph]; simp)) (fun hp => hp) (by simp))
  | wakeTimeout w d hph hd =>
    exact .inl (placed_rev_set h rfl (lt_of_phaseOf_ne (by rw [hph]; simp)) (fun hp => hp) (by simp))
  | wakeSpurious w dl hph =>
    exact .inl (placed_rev_set h rfl (lt_of_phaseOf_ne (by rw [hph]; simp)) (fun hp => hp) (by simp))
  | tick d => exact .inl (placed_rev_same h rfl (fun hp => hp))
  | dropPool =>
    left
    rcases h with hp | ⟨u, hu⟩ | ⟨u, hu⟩
    · exact .inl hp
    · exact .inr (.inl ⟨u, phaseOf_dropMap_rev rfl u _ rfl (by simp) hu⟩)
    · exact .inr (.inr ⟨u, phaseOf_dropMap_rev rfl u _ rfl (by simp) hu⟩)

end TH.Lts.Pool

namespace TH.Lts.Queue

theorem step_push_taken {s s' : State} {v : Nat} {woke : Option Nat}
    (h : step s (.push v woke) = some s') : s'.taken = s.taken := by
  simp only [step] at h
  split at h
  · simp only [Option.some.injEq] at h; subst h; simp
  · cases h

end TH.Lts.Queue

namespace TH.Lts.Whole

/-! ### every task in the pool belongs to an accepted connection -/

def TaskBound (s : State) : Prop := ∀ k, Pool.Placed s.pool k → k < s.conns.length

theorem taskBound_step {s s' : State} {l : Label} (hi : TaskBound s) (hs : step s l = some s') :
    TaskBound s' := by
  cases step_sound hs with
  | accept b p hp =>
    intro k hk
    simp only [List.length_append, List.length_singleton]
    rcases Pool.placed_step_rev hk hp with h | ⟨b', hb'⟩
    · exact Nat.lt_succ_of_lt (hi k h)
    · cases hb'; exact Nat.lt_succ_self _
  | arrive k0 v c hc hcl => intro k hk; simpa using hi k hk
  | close k0 c hc => intro k hk; simpa using hi k hk
  | push w woke k0 c v q hw hc hv hq => intro k hk; simpa using hi k hk
  | done w k0 c p hw hc hcl hpu hp =>
    intro k hk
    rcases Pool.placed_step_rev hk hp with h | ⟨b', hb'⟩
    · exact hi k h
    · cases hb'
  | pool l p hl hp =>
    intro k hk
    rcases Pool.placed_step_rev hk hp with h | ⟨b', hb'⟩
    · exact hi k h
    · subst hb'; simp [poolOnly] at hl
  | queue l q hl hq => exact hi

theorem taskBound_reachable {s : State} (h : Reachable s) : TaskBound s := by
  refine reachable_inv (Inv := TaskBound) ?_ (fun _ _ _ hi hs => taskBound_step hi hs) s h
  intro k hk
  rcases hk with hp | ⟨w, hw⟩ | ⟨w, hw⟩
  · simp [Pool.init] at hp
  · exfalso
    have hl := Pool.lt_of_phaseOf_ne (s := Pool.init) (w := w) (by rw [hw]; simp)
    rw [Pool.phaseOf_eq_getElem hl] at hw
    simp [Pool.init] at hw
  · exfalso
    have hl := Pool.lt_of_phaseOf_ne (s := Pool.init) (w := w) (by rw [hw]; simp)
    rw [Pool.phaseOf_eq_getElem hl] at hw
    simp [Pool.init] at hw

/-! ### wind-down labels -/

/-- the steps the server takes on its own once the clients are gone: the pool's own steps
    (no dispatch, no `dropPool`), pushes, task ends -/
inductive IsWind : Label → Prop where
  | begin (w : Nat) : IsWind (.pool (.begin w))
  | look (w : Nat) : IsWind (.pool (.look w))
  | wake (w : Nat) (b : Bool) : IsWind (.pool (.wake w b))
  | tick (d : Nat) : IsWind (.pool (.tick d))
  | push (w : Nat) (woke : Option Nat) : IsWind (.push w woke)
  | done (w : Nat) : IsWind (.done w)

theorem run_append {a m b : State} {ks ls : List Label}
    (hk : run a ks = some m) (hl : run m ls = some b) : run a (ks ++ ls) = some b := by
  induction ks generalizing a with
  | nil =>
    simp only [run, Option.some.injEq] at hk
    subst hk; exact hl
  | cons k ks ih =>
    simp only [run] at hk
    cases h1 : step a k with
    | none => rw [h1] at hk; cases hk
    | some a1 =>
      rw [h1] at hk
      simp only [List.cons_append, run, h1]
      exact ih hk

/-- what a wind-down step leaves alone -/
structure Pres (s s' : State) : Prop where
  dropped : s'.pool.dropped = s.pool.dropped
  wlen : s'.pool.workers.length = s.pool.workers.length
  sent : s'.conns.map (·.sent) = s.conns.map (·.sent)
  closed : (∀ c ∈ s.conns, c.closed = true) → ∀ c ∈ s'.conns, c.closed = true
  taken : s'.queue.taken = s.queue.taken

theorem pres_refl (s : State) : Pres s s := ⟨rfl, rfl, rfl, fun h => h, rfl⟩

theorem pres_trans {a b c : State} (h1 : Pres a b) (h2 : Pres b c) : Pres a c :=
  ⟨h2.dropped.trans h1.dropped, h2.wlen.trans h1.wlen, h2.sent.trans h1.sent,
   fun h => h2.closed (h1.closed h), h2.taken.trans h1.taken⟩

theorem pres_step {s s' : State} {l : Label} (hl : IsWind l) (hs : step s l = some s') :
    Pres s s' := by
  cases step_sound hs with
  | accept b p hp => cases hl
  | arrive k v c hc hcl => cases hl
  | close k c hc => cases hl
  | push w woke k c v q hw hc hv hq =>
    refine ⟨rfl, rfl, ?_, ?_, Queue.step_push_taken hq⟩
    · exact map_set_of_eq (·.sent) s.conns k c { c with pushed := c.pushed + 1 } hc rfl
    · intro h c' hc'
      rcases List.mem_or_eq_of_mem_set hc' with h' | h'
      · exact h c' h'
      · subst h'; exact h c (mem_of_getElem? hc)
  | done w k c p hw hc hcl hpu hp =>
    have := Pool.step_pres hp (by simp) (by simp)
    exact ⟨this.1, this.2, rfl, fun h => h, rfl⟩
  | pool l p hl' hp =>
    have : p.dropped = s.pool.dropped ∧ p.workers.length = s.pool.workers.length := by
      cases hl <;> exact Pool.step_pres hp (by simp) (by simp)
    exact ⟨this.1, this.2, rfl, fun h => h, rfl⟩
  | queue l q hl' hq => cases hl

theorem pres_run : ∀ (ls : List Label) (s s' : State), (∀ l ∈ ls, IsWind l) → Reachable s →
    run s ls = some s' → Pres s s' ∧ Reachable s' := by
  intro ls
  induction ls with
  | nil =>
    intro s s' _ hr h
    simp only [run, Option.some.injEq] at h
    subst h; exact ⟨pres_refl s, hr⟩
  | cons l ls ih =>
    intro s s' hls hr h
    simp only [run] at h
    cases h1 : step s l with
    | none => rw [h1] at h; cases h
    | some s1 =>
      rw [h1] at h
      have hp1 := pres_step (hls l List.mem_cons_self) h1
      obtain ⟨hp2, hr2⟩ := ih s1 s' (fun l' hl' => hls l' (List.mem_cons_of_mem _ hl'))
        (reachable_step hr h1) h
      exact ⟨pres_trans hp1 hp2, hr2⟩

/-! ### the measure -/

/-- how far a worker is from rest (exited; in a live pool also: waiting without a time limit) -/
def rank (d : Bool) : Pool.WPhase → Nat
  | .exited => 0
  | .woken true => 1
  | .waiting (some _) => 2
  | .woken false => 3
  | .seeking => 3
  | .waiting none => if d then 4 else 0
  | .running _ => 4
  | .starting none => 4
  | .starting (some _) => 5

def unpushed (c : Conn) : Nat := c.sent.length - c.pushed

def mu (s : State) : Nat :=
  (s.pool.workers.map (rank s.pool.dropped)).sum + 5 * s.pool.pending.length
    + (s.conns.map unpushed).sum

theorem sum_map_set {α : Type} (f : α → Nat) :
    ∀ (l : List α) (w : Nat) (p : α) (h : w < l.length),
      ((l.set w p).map f).sum + f l[w] = (l.map f).sum + f p
  | [], w, p, h => by simp at h
  | a :: l, 0, p, h => by
    simp only [List.set_cons_zero, List.map_cons, List.sum_cons, List.getElem_cons_zero]; omega
  | a :: l, w+1, p, h => by
    have ih := sum_map_set f l w p (by simpa using h)
    simp only [List.set_cons_succ, List.map_cons, List.sum_cons, List.getElem_cons_succ]; omega

theorem rank_sum_set (d : Bool) (p : Pool.State) (w : Nat) (q old : Pool.WPhase)
    (hph : Pool.phaseOf p w = old) (hne : old ≠ .exited) :
    ((p.workers.set w q).map (rank d)).sum + rank d old
      = (p.workers.map (rank d)).sum + rank d q := by
  have hw : w < p.workers.length := Pool.lt_of_phaseOf_ne (by rw [hph]; exact hne)
  have := sum_map_set (rank d) p.workers w q hw
  rw [Pool.phaseOf_eq_getElem hw] at hph
  rw [hph] at this
  exact this

/-! ### single steps, with the state after them spelled out -/

theorem push_step {s : State} {w k : Nat} {c : Conn}
    (hw : Pool.phaseOf s.pool w = .running k) (hk : s.conns[k]? = some c)
    (hp : c.pushed < c.sent.length) :
    ∃ woke q, step s (.push w woke) = some
      { s with queue := q, conns := s.conns.set k { c with pushed := c.pushed + 1 } } := by
  obtain ⟨woke, q, hq⟩ := Queue.push_enabled s.queue (c.sent[c.pushed]'hp)
  refine ⟨woke, q, ?_⟩
  simp only [step, taskOf_running hw, hk, List.getElem?_eq_getElem hp, hq, Option.map_some]

theorem done_step {s : State} {w k : Nat} {c : Conn}
    (hw : Pool.phaseOf s.pool w = .running k) (hk : s.conns[k]? = some c)
    (hcl : c.closed = true) (hpu : c.pushed = c.sent.length) :
    step s (.done w) = some
      { s with pool := { s.pool with workers := s.pool.workers.set w .seeking } } := by
  have hst := Pool.step_complete (.finish w k hw)
  simp [step, taskOf_running hw, hk, hcl, hpu, hst]

/-- one step of the pool alone that decreases the measure -/
theorem pool_dec {s : State} {l : Pool.Label} {p : Pool.State} (hl : IsWind (.pool l))
    (hpo : poolOnly l = true) (hp : Pool.step s.pool l = some p)
    (hmu : mu { s with pool := p } < mu s) :
    ∃ ls s', (∀ l ∈ ls, IsWind l) ∧ run s ls = some s' ∧ mu s' < mu s := by
  refine ⟨[.pool l], _, ?_, run_cons (step_pool hpo hp) rfl, hmu⟩
  intro l' hl'
  simp only [List.mem_singleton] at hl'
  subst hl'; exact hl

/-! ### progress: a worker that is not at rest has a short run that decreases the measure -/

theorem progress {s : State} (hr : Reachable s) (hc : ∀ c ∈ s.conns, c.closed = true)
    (ha : s.pool.dropped = true → Pool.minThreads < s.pool.active)
    {w : Nat} (hw : rank s.pool.dropped (Pool.phaseOf s.pool w) ≠ 0) :
    ∃ ls s', (∀ l ∈ ls, IsWind l) ∧ run s ls = some s' ∧ mu s' < mu s := by
  cases hph : Pool.phaseOf s.pool w with
  | exited => rw [hph] at hw; exact absurd rfl hw
  | starting ini =>
    cases ini with
    | none =>
      have hst := Pool.step_complete (.beginNone w hph)
      refine pool_dec (.begin w) rfl hst ?_
      have e := rank_sum_set s.pool.dropped s.pool w .seeking _ hph (by simp)
      simp only [mu, rank] at e ⊢
      omega
    | some k =>
      have hst := Pool.step_complete (.beginSome w k hph)
      refine pool_dec (.begin w) rfl hst ?_
      have e := rank_sum_set s.pool.dropped s.pool w (.running k) _ hph (by simp)
      simp only [mu, rank] at e ⊢
      omega
  | running k =>
    have hlt : k < s.conns.length := taskBound_reachable hr k (.inr (.inr ⟨w, hph⟩))
    have hk : s.conns[k]? = some s.conns[k] := List.getElem?_eq_getElem hlt
    have hmem : s.conns[k] ∈ s.conns := List.getElem_mem hlt
    have hle := (dataInv_reachable hr).le _ hmem
    by_cases hp : s.conns[k].pushed < s.conns[k].sent.length
    · obtain ⟨woke, q, hst⟩ := push_step hph hk hp
      refine ⟨[.push w woke], _, ?_, run_cons hst rfl, ?_⟩
      · intro l hl
        simp only [List.mem_singleton] at hl
        subst hl; exact .push w woke
      · have e := sum_map_set unpushed s.conns k
          { s.conns[k] with pushed := s.conns[k].pushed + 1 } hlt
        simp only [mu, unpushed] at e ⊢
        omega
    · have hst := done_step hph hk (hc _ hmem) (by omega)
      refine ⟨[.done w], _, ?_, run_cons hst rfl, ?_⟩
      · intro l hl
        simp only [List.mem_singleton] at hl
        subst hl; exact .done w
      · have e := rank_sum_set s.pool.dropped s.pool w .seeking _ hph (by simp)
        simp only [mu, rank] at e ⊢
        omega
  | seeking =>
    cases hpe : s.pool.pending with
    | cons k rest =>
      have hst := Pool.step_complete (.seekTake w k rest hph hpe)
      refine pool_dec (.look w) rfl hst ?_
      have e := rank_sum_set s.pool.dropped s.pool w (.running k) _ hph (by simp)
      simp only [mu, rank, hpe, List.length_cons] at e ⊢
      omega
    | nil =>
      by_cases hact : s.pool.active ≤ Pool.minThreads
      · have hd : s.pool.dropped = false := by
          cases h : s.pool.dropped with
          | false => rfl
          | true => have := ha h; omega
        have hst := Pool.step_complete (.seekWaitU w hph hpe hact)
        refine pool_dec (.look w) rfl hst ?_
        have e := rank_sum_set s.pool.dropped s.pool w (.waiting none) _ hph (by simp)
        simp only [mu, rank, hd, hpe] at e ⊢
        simp only [Bool.false_eq_true, if_false] at e
        omega
      · have hst := Pool.step_complete (.seekWaitT w hph hpe (by omega))
        refine pool_dec (.look w) rfl hst ?_
        have e := rank_sum_set s.pool.dropped s.pool w
          (.waiting (some (s.pool.now + Pool.idleNs))) _ hph (by simp)
        simp only [mu, rank, hpe] at e ⊢
        omega
  | waiting dl =>
    cases dl with
    | none =>
      have hd : s.pool.dropped = true := by
        cases h : s.pool.dropped with
        | true => rfl
        | false => rw [hph, h] at hw; simp [rank] at hw
      have hst := Pool.step_complete (.wakeSpurious w none hph)
      refine pool_dec (.wake w false) rfl hst ?_
      have e := rank_sum_set s.pool.dropped s.pool w (.woken false) _ hph (by simp)
      simp only [mu, rank, hd] at e ⊢
      simp only [if_true] at e
      omega
    | some d =>
      have hst1 : Pool.step s.pool (.tick d) = some { s.pool with now := s.pool.now + d } := rfl
      have hph1 : Pool.phaseOf { s.pool with now := s.pool.now + d } w = .waiting (some d) := hph
      have hst2 := Pool.step_complete (.wakeTimeout w d hph1 (Nat.le_add_left _ _))
      refine ⟨[.pool (.tick d), .pool (.wake w true)], _, ?_,
        run_cons (step_pool rfl hst1) (run_cons (step_pool rfl hst2) rfl), ?_⟩
      · intro l hl
        simp only [List.mem_cons, List.not_mem_nil, or_false] at hl
        rcases hl with hl | hl
        · subst hl; exact .tick d
        · subst hl; exact .wake w true
      · have e := rank_sum_set s.pool.dropped s.pool w (.woken true) _ hph (by simp)
        simp only [mu, rank] at e ⊢
        omega
  | woken b =>
    cases hpe : s.pool.pending with
    | cons k rest =>
      have hst := Pool.step_complete (.wokenTake w k b rest hph hpe)
      refine pool_dec (.look w) rfl hst ?_
      have e := rank_sum_set s.pool.dropped s.pool w (.running k) _ hph (by simp)
      cases b <;> simp only [mu, rank, hpe, List.length_cons] at e ⊢ <;> omega
    | nil =>
      cases b with
      | true =>
        have hst := Pool.step_complete (.wokenExit w hph hpe)
        refine pool_dec (.look w) rfl hst ?_
        have e := rank_sum_set s.pool.dropped s.pool w .exited _ hph (by simp)
        simp only [mu, rank, hpe] at e ⊢
        omega
      | false =>
        by_cases hact : s.pool.active ≤ Pool.minThreads
        · have hd : s.pool.dropped = false := by
            cases h : s.pool.dropped with
            | false => rfl
            | true => have := ha h; omega
          have hst := Pool.step_complete (.wokenWaitU w hph hpe hact)
          refine pool_dec (.look w) rfl hst ?_
          have e := rank_sum_set s.pool.dropped s.pool w (.waiting none) _ hph (by simp)
          simp only [mu, rank, hd, hpe] at e ⊢
          simp only [Bool.false_eq_true, if_false] at e
          omega
        · have hst := Pool.step_complete (.wokenWaitT w hph hpe (by omega))
          refine pool_dec (.look w) rfl hst ?_
          have e := rank_sum_set s.pool.dropped s.pool w
            (.waiting (some (s.pool.now + Pool.idleNs))) _ hph (by simp)
          simp only [mu, rank, hpe] at e ⊢
          omega

/-! ### induction on the measure -/

/-- fewer than a billion threads were ever created (`dropPool` stores 999999999 in `active_tasks`,
    and every worker that exits afterwards takes one off): needed only for a dropped pool -/
def Small (s : State) : Prop :=
  s.pool.dropped = true → s.pool.workers.length + Pool.minThreads < Pool.droppedActive

theorem exists_phase_of_mem {p : Pool.State} {x : Pool.WPhase} (hx : x ∈ p.workers) :
    ∃ w, Pool.phaseOf p w = x := by
  obtain ⟨w, hw, rfl⟩ := List.getElem_of_mem hx
  exact ⟨w, Pool.phaseOf_eq_getElem hw⟩

theorem mem_of_phase {p : Pool.State} {w : Nat} {x : Pool.WPhase} (h : Pool.phaseOf p w = x)
    (hne : x ≠ .exited) : x ∈ p.workers := by
  have hl := Pool.lt_of_phaseOf_ne (s := p) (w := w) (by rw [h]; exact hne)
  rw [Pool.phaseOf_eq_getElem hl] at h
  rw [← h]; exact List.getElem_mem hl

theorem wind_down_aux : ∀ (n : Nat) (s : State), mu s ≤ n → Reachable s →
    (∀ c ∈ s.conns, c.closed = true) → Small s →
    ∃ ls s', (∀ l ∈ ls, IsWind l) ∧ run s ls = some s' ∧
      ∀ p ∈ s'.pool.workers, rank s'.pool.dropped p = 0 := by
  intro n
  induction n with
  | zero =>
    intro s hmu hr hc hs
    by_cases hall : ∀ p ∈ s.pool.workers, rank s.pool.dropped p = 0
    · exact ⟨[], s, by simp, rfl, hall⟩
    · exfalso
      simp only [Classical.not_forall] at hall
      obtain ⟨x, hx, hrk⟩ := hall
      obtain ⟨w, hw⟩ := exists_phase_of_mem hx
      have ha := fun hd => Pool.dropped_active_big (pool_reachable hr) hd (hs hd)
      obtain ⟨ls1, s1, _, _, hlt⟩ := progress hr hc ha (w := w) (by rw [hw]; exact hrk)
      omega
  | succ n ih =>
    intro s hmu hr hc hs
    by_cases hall : ∀ p ∈ s.pool.workers, rank s.pool.dropped p = 0
    · exact ⟨[], s, by simp, rfl, hall⟩
    · simp only [Classical.not_forall] at hall
      obtain ⟨x, hx, hrk⟩ := hall
      obtain ⟨w, hw⟩ := exists_phase_of_mem hx
      have ha := fun hd => Pool.dropped_active_big (pool_reachable hr) hd (hs hd)
      obtain ⟨ls1, s1, hls1, hrun1, hlt⟩ := progress hr hc ha (w := w) (by rw [hw]; exact hrk)
      obtain ⟨hp1, hr1⟩ := pres_run ls1 s s1 hls1 hr hrun1
      have hs1 : Small s1 := by
        intro hd
        rw [hp1.dropped] at hd
        rw [hp1.wlen]; exact hs hd
      obtain ⟨ls2, s2, hls2, hrun2, hrest⟩ := ih s1 (by omega) hr1 (hp1.closed hc) hs1
      refine ⟨ls1 ++ ls2, s2, ?_, run_append hrun1 hrun2, hrest⟩
      intro l hl
      rcases List.mem_append.mp hl with hl | hl
      · exact hls1 l hl
      · exact hls2 l hl

/-! ### at rest -/

theorem rank_true_zero {p : Pool.WPhase} (h : rank true p = 0) : p = .exited := by
  cases p with
  | starting i => cases i <;> simp [rank] at h
  | waiting dl => cases dl <;> simp [rank] at h
  | woken b => cases b <;> simp [rank] at h
  | running k => simp [rank] at h
  | seeking => simp [rank] at h
  | exited => rfl

theorem rank_false_zero {p : Pool.WPhase} (h : rank false p = 0) :
    p = .exited ∨ p = .waiting none := by
  cases p with
  | starting i => cases i <;> simp [rank] at h
  | waiting dl =>
    cases dl with
    | none => exact .inr rfl
    | some d => simp [rank] at h
  | woken b => cases b <;> simp [rank] at h
  | running k => simp [rank] at h
  | seeking => simp [rank] at h
  | exited => exact .inl rfl

theorem rank_zero {d : Bool} {p : Pool.WPhase} (h : rank d p = 0) :
    p = .exited ∨ p = .waiting none := by
  cases d with
  | false => exact rank_false_zero h
  | true => exact .inl (rank_true_zero h)

/-- when every worker is at rest nothing is queued in the pool -/
theorem rest_pending_nil {s : State} (hr : Reachable s)
    (h0 : ∀ p ∈ s.pool.workers, rank s.pool.dropped p = 0) : s.pool.pending = [] := by
  have hj := (Pool.inv1_reachable (pool_reachable hr)).j
  have hf : s.pool.workers.filter Pool.isWoken = [] := by
    rw [List.filter_eq_nil_iff]
    intro p hp
    rcases rank_zero (h0 p hp) with rfl | rfl <;> simp [Pool.isWoken]
  simp only [Pool.count, hf, List.length_nil, Nat.le_zero] at hj
  exact List.length_eq_zero_iff.mp hj

/-- when every worker is at rest every connection's thread has queued everything -/
theorem rest_all_pushed {s : State} (hr : Reachable s)
    (h0 : ∀ p ∈ s.pool.workers, rank s.pool.dropped p = 0) :
    ∀ (k : Nat) (c : Conn), s.conns[k]? = some c → c.pushed = c.sent.length := by
  intro k c hk
  rcases loc_reachable hr k c hk with (hpend | ⟨w, hw⟩ | ⟨w, hw⟩) | ⟨_, h⟩
  · rw [rest_pending_nil hr h0] at hpend; cases hpend
  · have := h0 _ (mem_of_phase hw (by simp))
    simp [rank] at this
  · have := h0 _ (mem_of_phase hw (by simp))
    simp [rank] at this
  · exact h

theorem live_zero_of_rest {p : Pool.State} (h0 : ∀ x ∈ p.workers, rank true x = 0) :
    Pool.count p Pool.isLive = 0 := by
  have hf : p.workers.filter Pool.isLive = [] := by
    rw [List.filter_eq_nil_iff]
    intro x hx
    rw [rank_true_zero (h0 x hx)]; simp [Pool.isLive]
  simp [Pool.count, hf]

/-! ### nothing is lost -/

theorem pushedOf_full {c : Conn} (h : c.pushed = c.sent.length) : pushedOf c = c.sent := by
  simp [pushedOf, h]

theorem map_pushedOf_full {s : State} (h : ∀ (k : Nat) (c : Conn), s.conns[k]? = some c → c.pushed = c.sent.length) :
    s.conns.map pushedOf = s.conns.map (·.sent) := by
  apply List.map_congr_left
  intro c hc
  obtain ⟨k, hk⟩ := List.getElem?_of_mem hc
  exact pushedOf_full (h k c hk)

/-- everything every client sent is, as a multiset, what was handed to receivers so far plus what
    is queued now, and each connection's requests are among them in wire order -/
theorem all_sent_queued {s : State} (hr : Reachable s)
    (h : ∀ (k : Nat) (c : Conn), s.conns[k]? = some c → c.pushed = c.sent.length) :
    (s.queue.taken ++ Queue.elems s.queue.queue).Perm (allSent s) ∧
    ∀ c ∈ s.conns, c.sent.Sublist (s.queue.taken ++ Queue.elems s.queue.queue) := by
  have hd := dataInv_reachable hr
  rw [Queue.exactly_once_inv s.queue (queue_reachable hr)]
  refine ⟨?_, ?_⟩
  · have := hd.perm
    rw [map_pushedOf_full h] at this
    exact this
  · intro c hc
    obtain ⟨k, hk⟩ := List.getElem?_of_mem hc
    have := hd.sub c hc
    rw [pushedOf_full (h k c hk)] at this
    exact this

/-- the wind-down: from every reachable state in which every client is gone, the server's own
    steps bring every worker to rest with everything queued -/
theorem wind_down {s : State} (hr : Reachable s) (hc : ∀ c ∈ s.conns, c.closed = true)
    (hs : Small s) :
    ∃ ls s', (∀ l ∈ ls, IsWind l) ∧ run s ls = some s' ∧ Reachable s' ∧ Pres s s' ∧
      (∀ p ∈ s'.pool.workers, rank s.pool.dropped p = 0) ∧ s'.pool.pending = [] ∧
      (∀ (k : Nat) (c : Conn), s'.conns[k]? = some c → c.pushed = c.sent.length) ∧
      (s.queue.taken ++ Queue.elems s'.queue.queue).Perm (allSent s) ∧
      (∀ c ∈ s'.conns, c.sent.Sublist (s.queue.taken ++ Queue.elems s'.queue.queue)) := by
  obtain ⟨ls, s', hls, hrun, hrest⟩ := wind_down_aux (mu s) s (Nat.le_refl _) hr hc hs
  obtain ⟨hp, hr'⟩ := pres_run ls s s' hls hr hrun
  have hpu := rest_all_pushed hr' hrest
  have hq := all_sent_queued hr' hpu
  have hall : allSent s' = allSent s := by simp only [allSent, hp.sent]
  rw [hp.taken, hall] at hq
  refine ⟨ls, s', hls, hrun, hr', hp, ?_, rest_pending_nil hr' hrest, hpu, hq.1, hq.2⟩
  rw [← hp.dropped]; exact hrest

/-! ### why `Small` is needed: a dropped pool whose `active_tasks` has come down to `MIN_THREADS`

After a billion exits, a worker that looks at the list of tasks again (a spurious wake-up is
enough) starts a wait without a time limit that nothing will ever end. -/

def isStarting : Pool.WPhase → Bool
  | .starting _ => true
  | _ => false

/-- worker `w` of a dropped pool is caught in an untimed wait -/
structure StuckAt (w : Nat) (s : State) : Prop where
  dropped : s.pool.dropped = true
  pend : s.pool.pending = []
  act : s.pool.active ≤ Pool.minThreads
  nost : ∀ p ∈ s.pool.workers, isStarting p = false
  ph : Pool.phaseOf s.pool w = .waiting none ∨ Pool.phaseOf s.pool w = .woken false

theorem nost_set {ws : List Pool.WPhase} {w : Nat} {q : Pool.WPhase}
    (h : ∀ p ∈ ws, isStarting p = false) (hq : isStarting q = false) :
    ∀ p ∈ ws.set w q, isStarting p = false := by
  intro p hp
  rcases List.mem_or_eq_of_mem_set hp with h' | h'
  · exact h p h'
  · subst h'; exact hq

theorem stuck_pool_step {w : Nat} {s : State} {l : Pool.Label} {p : Pool.State}
    (hi : StuckAt w s) (hl : IsWind (.pool l)) (hp : Pool.step s.pool l = some p) :
    StuckAt w { s with pool := p } := by
  obtain ⟨hd, hpe, hact, hns, hph⟩ := hi
  have other : ∀ {u : Nat} {x q : Pool.WPhase}, Pool.phaseOf s.pool u = x →
      x ≠ .waiting none → x ≠ .woken false →
      (Pool.phaseOf { s.pool with workers := s.pool.workers.set u q } w = .waiting none ∨
       Pool.phaseOf { s.pool with workers := s.pool.workers.set u q } w = .woken false) := by
    intro u x q hu h1 h2
    have hne : w ≠ u := by
      intro he; subst he
      rcases hph with h | h <;> rw [h] at hu
      · exact h1 hu.symm
      · exact h2 hu.symm
    rw [Pool.phaseOf_of_set_ne (p := s.pool) rfl hne]
    exact hph
  have self : ∀ {u : Nat} {x q : Pool.WPhase}, Pool.phaseOf s.pool u = x → x ≠ .exited →
      (q = .waiting none ∨ q = .woken false) →
      (Pool.phaseOf { s.pool with workers := s.pool.workers.set u q } w = .waiting none ∨
       Pool.phaseOf { s.pool with workers := s.pool.workers.set u q } w = .woken false) := by
    intro u x q hu hne hq
    by_cases he : w = u
    · subst he
      have hl := Pool.lt_of_phaseOf_ne (s := s.pool) (w := w) (by rw [hu]; exact hne)
      rw [Pool.phaseOf_of_set_self (p := s.pool) rfl hl]
      exact hq
    · rw [Pool.phaseOf_of_set_ne (p := s.pool) rfl he]
      exact hph
  cases Pool.step_sound hp with
  | dispNew k hd' hc => cases hl
  | dispQNone k hd' hc hn => cases hl
  | dispQSome k u dl hd' hc hu => cases hl
  | finish u k hu => cases hl
  | dropPool => cases hl
  | beginSome u k hu =>
    have := hns _ (mem_of_phase hu (by simp))
    simp [isStarting] at this
  | beginNone u hu =>
    have := hns _ (mem_of_phase hu (by simp))
    simp [isStarting] at this
  | seekTake u k rest hu hp' => rw [hpe] at hp'; cases hp'
  | wokenTake u k b rest hu hp' => rw [hpe] at hp'; cases hp'
  | seekWaitT u hu hp' ha => omega
  | wokenWaitT u hu hp' ha => omega
  | seekWaitU u hu hp' ha =>
    exact ⟨hd, hpe, hact, nost_set hns rfl, other hu (by simp) (by simp)⟩
  | wokenExit u hu hp' =>
    exact ⟨hd, hpe, by show s.pool.active - 1 ≤ _; omega, nost_set hns rfl,
      other hu (by simp) (by simp)⟩
  | wokenWaitU u hu hp' ha =>
    exact ⟨hd, hpe, hact, nost_set hns rfl, self hu (by simp) (.inl rfl)⟩
  | wakeTimeout u d hu hd' =>
    exact ⟨hd, hpe, hact, nost_set hns rfl, other hu (by simp) (by simp)⟩
  | wakeSpurious u dl hu =>
    exact ⟨hd, hpe, hact, nost_set hns rfl, self hu (by simp) (.inr rfl)⟩
  | tick d => exact ⟨hd, hpe, hact, hns, hph⟩

theorem stuck_step {w : Nat} {s s' : State} {l : Label} (hi : StuckAt w s) (hl : IsWind l)
    (hs : step s l = some s') : StuckAt w s' := by
  cases step_sound hs with
  | accept b p hp => cases hl
  | arrive k v c hc hcl => cases hl
  | close k c hc => cases hl
  | queue l q hl' hq => cases hl
  | push u woke k c v q hu hc hv hq => exact ⟨hi.dropped, hi.pend, hi.act, hi.nost, hi.ph⟩
  | pool l p hl' hp => exact stuck_pool_step hi hl hp
  | done u k c p hu hc hcl hpu hp =>
    cases Pool.step_sound hp with
    | finish _ k' hu' =>
      refine ⟨hi.dropped, hi.pend, hi.act, nost_set hi.nost rfl, ?_⟩
      have hne : w ≠ u := by
        intro he; subst he
        rcases hi.ph with h | h <;> rw [h] at hu' <;> cases hu'
      show Pool.phaseOf { s.pool with workers := s.pool.workers.set u .seeking } w = _ ∨ _
      rw [Pool.phaseOf_of_set_ne (p := s.pool) rfl hne]
      exact hi.ph

theorem stuck_run {w : Nat} : ∀ (ls : List Label) (s s' : State), StuckAt w s →
    (∀ l ∈ ls, IsWind l) → run s ls = some s' → StuckAt w s' := by
  intro ls
  induction ls with
  | nil =>
    intro s s' hi _ h
    simp only [run, Option.some.injEq] at h
    subst h; exact hi
  | cons l ls ih =>
    intro s s' hi hls h
    simp only [run] at h
    cases h1 : step s l with
    | none => rw [h1] at h; cases h
    | some s1 =>
      rw [h1] at h
      exact ih s1 s' (stuck_step hi (hls l List.mem_cons_self) h1)
        (fun l' hl' => hls l' (List.mem_cons_of_mem _ hl')) h

theorem stuck_live {w : Nat} {s : State} (hi : StuckAt w s) :
    Pool.count s.pool Pool.isLive ≠ 0 := by
  have hm : ∃ x ∈ s.pool.workers, Pool.isLive x = true := by
    rcases hi.ph with h | h
    · exact ⟨_, mem_of_phase h (by simp), rfl⟩
    · exact ⟨_, mem_of_phase h (by simp), rfl⟩
  obtain ⟨x, hx, hlx⟩ := hm
  have : x ∈ s.pool.workers.filter Pool.isLive := List.mem_filter.mpr ⟨hx, hlx⟩
  intro h0
  simp only [Pool.count, List.length_eq_zero_iff] at h0
  rw [h0] at this; cases this

/-! ### such a state is reachable: a burst of a billion connections, all served by their own
    thread, all idle in a timed wait when the pool is dropped; they exit one by one, the last one
    is woken spuriously -/

theorem reach_pool {s : State} (hr : Reachable s) {l : Pool.Label} {p : Pool.State}
    (hpo : poolOnly l = true) (hp : Pool.step s.pool l = some p) :
    Reachable { s with pool := p } :=
  reachable_step hr (step_pool hpo hp)

theorem close_last (s : State) (p : Pool.State) :
    step { pool := p, queue := s.queue, conns := s.conns ++ [{}] } (.close s.conns.length)
      = some { pool := p, queue := s.queue, conns := s.conns ++ [{ closed := true }] } := by
  simp [step]

/-- phase 1: `n` connections accepted, each on a fresh thread, each client gone at once -/
theorem burst_reachable (n : Nat) : ∃ s, Reachable s ∧ s.pool.dropped = false ∧
    s.pool.pending = [] ∧ s.pool.waitingCnt = 0 ∧ s.pool.workers.length = n + Pool.minThreads ∧
    (∀ p ∈ s.pool.workers, isStarting p = true) ∧
    (∀ c ∈ s.conns, c.closed = true ∧ c.pushed = c.sent.length) := by
  induction n with
  | zero =>
    refine ⟨{}, ⟨[], rfl⟩, rfl, rfl, rfl, by decide, by decide, ?_⟩
    intro c hc; cases hc
  | succ n ih =>
    obtain ⟨s, hr, hd, hpe, hwc, hlen, hst, hcs⟩ := ih
    have hp := Pool.step_complete (.dispNew (s := s.pool) s.conns.length hd (by omega))
    have h1 : step s (.accept .newThread) = some
        { s with pool := { s.pool with
                    workers := s.pool.workers ++ [.starting (some s.conns.length)],
                    dispatched := s.pool.dispatched ++ [s.conns.length] },
                 conns := s.conns ++ [{}] } := by
      simp only [step, hp, Option.map_some]
    have hr1 := reachable_step hr h1
    have h2 := close_last s { s.pool with
        workers := s.pool.workers ++ [.starting (some s.conns.length)],
        dispatched := s.pool.dispatched ++ [s.conns.length] }
    refine ⟨_, reachable_step hr1 h2, hd, hpe, hwc, ?_, ?_, ?_⟩
    · simp only [List.length_append, List.length_singleton, hlen]; omega
    · intro p hp'
      rcases List.mem_append.mp hp' with h | h
      · exact hst p h
      · simp only [List.mem_singleton] at h; subst h; rfl
    · intro c hc
      rcases List.mem_append.mp hc with h | h
      · exact hcs c h
      · simp only [List.mem_singleton] at h; subst h; exact ⟨rfl, rfl⟩

/-- a live pool with nothing queued, every client gone, every connection fully queued -/
structure Calm (s : State) : Prop where
  dropped : s.pool.dropped = false
  pend : s.pool.pending = []
  conns : ∀ c ∈ s.conns, c.closed = true ∧ c.pushed = c.sent.length

theorem seek_to_wait {s : State} (hr : Reachable s) (hc : Calm s) {w : Nat}
    (hph : Pool.phaseOf s.pool w = .seeking) :
    ∃ s' dl, Reachable s' ∧ Calm s' ∧ s'.pool.workers = s.pool.workers.set w (.waiting dl) := by
  by_cases hact : s.pool.active ≤ Pool.minThreads
  · have hst := Pool.step_complete (.seekWaitU w hph hc.pend hact)
    exact ⟨_, none, reach_pool hr rfl hst, ⟨hc.dropped, hc.pend, hc.conns⟩, rfl⟩
  · have hst := Pool.step_complete (.seekWaitT w hph hc.pend (by omega))
    exact ⟨_, _, reach_pool hr rfl hst, ⟨hc.dropped, hc.pend, hc.conns⟩, rfl⟩

/-- phase 2, one thread: it begins, its connection (if any) is over at once, it goes to sleep -/
theorem settle_one {s : State} (hr : Reachable s) (hc : Calm s) {w : Nat} {i : Option Nat}
    (hph : Pool.phaseOf s.pool w = .starting i) :
    ∃ s' dl, Reachable s' ∧ Calm s' ∧ s'.pool.workers = s.pool.workers.set w (.waiting dl) := by
  have hwl := Pool.lt_of_phaseOf_ne (s := s.pool) (w := w) (by rw [hph]; simp)
  cases i with
  | none =>
    have hst := Pool.step_complete (.beginNone w hph)
    have hr1 := reach_pool hr rfl hst
    obtain ⟨s', dl, hr', hc', hw'⟩ := seek_to_wait hr1 ⟨hc.dropped, hc.pend, hc.conns⟩
      (w := w) (Pool.phaseOf_of_set_self rfl hwl)
    exact ⟨s', dl, hr', hc', by rw [hw']; simp⟩
  | some k =>
    have hlt : k < s.conns.length := taskBound_reachable hr k (.inr (.inl ⟨w, hph⟩))
    have hk : s.conns[k]? = some s.conns[k] := List.getElem?_eq_getElem hlt
    have hck := hc.conns _ (List.getElem_mem hlt)
    have hst := Pool.step_complete (.beginSome w k hph)
    have hr1 := reach_pool hr rfl hst
    have hst2 := done_step (s := { s with pool := { s.pool with
        workers := s.pool.workers.set w (.running k), active := s.pool.active + 1,
        started := s.pool.started ++ [(k, w)] } }) (w := w) (k := k)
      (Pool.phaseOf_of_set_self rfl hwl) hk hck.1 hck.2
    have hr2 := reachable_step hr1 hst2
    obtain ⟨s', dl, hr', hc', hw'⟩ := seek_to_wait hr2 ⟨hc.dropped, hc.pend, hc.conns⟩
      (w := w) (Pool.phaseOf_of_set_self rfl (by simpa using hwl))
    exact ⟨s', dl, hr', hc', by rw [hw']; simp⟩

/-- phase 2: every thread has begun and sleeps -/
theorem settle_all : ∀ (m : Nat) (s : State), Reachable s → Calm s →
    (∀ p ∈ s.pool.workers, isStarting p = true ∨ Pool.isWaiting p = true) →
    Pool.count s.pool isStarting ≤ m →
    ∃ s', Reachable s' ∧ Calm s' ∧ s'.pool.workers.length = s.pool.workers.length ∧
      ∀ p ∈ s'.pool.workers, Pool.isWaiting p = true := by
  intro m
  induction m with
  | zero =>
    intro s hr hc hall hcnt
    refine ⟨s, hr, hc, rfl, ?_⟩
    have h0 : s.pool.workers.filter isStarting = [] := by
      simp only [Pool.count, Nat.le_zero, List.length_eq_zero_iff] at hcnt; exact hcnt
    rw [List.filter_eq_nil_iff] at h0
    intro p hp
    rcases hall p hp with h | h
    · exact absurd h (h0 p hp)
    · exact h
  | succ m ih =>
    intro s hr hc hall hcnt
    by_cases h0 : s.pool.workers.filter isStarting = []
    · refine ⟨s, hr, hc, rfl, ?_⟩
      rw [List.filter_eq_nil_iff] at h0
      intro p hp
      rcases hall p hp with h | h
      · exact absurd h (h0 p hp)
      · exact h
    · obtain ⟨x, hxm⟩ := List.exists_mem_of_ne_nil _ h0
      obtain ⟨hx, hxs⟩ := List.mem_filter.mp hxm
      obtain ⟨w, hw⟩ := exists_phase_of_mem hx
      cases x with
      | starting i =>
        obtain ⟨s', dl, hr', hc', hw'⟩ := settle_one hr hc hw
        have e := Pool.filter_set_length' isStarting s.pool w (.waiting dl) _ hw (by simp)
        simp only [isStarting, if_true] at e
        obtain ⟨s2, hr2, hc2, hl2, hall2⟩ := ih s' hr' hc' (by
            intro p hp
            rw [hw'] at hp
            rcases List.mem_or_eq_of_mem_set hp with h | h
            · exact hall p h
            · subst h; exact .inr rfl)
          (by simp only [Pool.count, hw'] at hcnt ⊢
              simp only [Bool.false_eq_true, if_false] at e
              omega)
        exact ⟨s2, hr2, hc2, by rw [hl2, hw']; simp, hall2⟩
      | _ => simp [isStarting] at hxs

/-- a dropped pool with nothing queued, every client gone -/
structure Dropd (s : State) : Prop where
  dropped : s.pool.dropped = true
  pend : s.pool.pending = []
  conns : ∀ c ∈ s.conns, c.closed = true

/-- phase 3: every thread woken by the drop looks and starts a timed wait -/
theorem rewait_all : ∀ (m : Nat) (s : State), Reachable s → Dropd s →
    s.pool.active = Pool.droppedActive →
    (∀ p ∈ s.pool.workers,
      p = .woken false ∨ p = .waiting (some (s.pool.now + Pool.idleNs))) →
    Pool.count s.pool Pool.isWoken ≤ m →
    ∃ s', Reachable s' ∧ Dropd s' ∧ s'.pool.active = Pool.droppedActive ∧
      s'.pool.now = s.pool.now ∧ s'.pool.workers.length = s.pool.workers.length ∧
      ∀ p ∈ s'.pool.workers, p = .waiting (some (s.pool.now + Pool.idleNs)) := by
  intro m
  induction m with
  | zero =>
    intro s hr hc hact hall hcnt
    refine ⟨s, hr, hc, hact, rfl, rfl, ?_⟩
    have h0 : s.pool.workers.filter Pool.isWoken = [] := by
      simp only [Pool.count, Nat.le_zero, List.length_eq_zero_iff] at hcnt; exact hcnt
    rw [List.filter_eq_nil_iff] at h0
    intro p hp
    rcases hall p hp with h | h
    · subst h; exact absurd rfl (h0 _ hp)
    · exact h
  | succ m ih =>
    intro s hr hc hact hall hcnt
    by_cases h0 : s.pool.workers.filter Pool.isWoken = []
    · refine ⟨s, hr, hc, hact, rfl, rfl, ?_⟩
      rw [List.filter_eq_nil_iff] at h0
      intro p hp
      rcases hall p hp with h | h
      · subst h; exact absurd rfl (h0 _ hp)
      · exact h
    · obtain ⟨x, hxm⟩ := List.exists_mem_of_ne_nil _ h0
      obtain ⟨hx, hxs⟩ := List.mem_filter.mp hxm
      obtain ⟨w, hw⟩ := exists_phase_of_mem hx
      rcases hall x hx with hxe | hxe
      · subst hxe
        have hst := Pool.step_complete (.wokenWaitT w hw hc.pend (by rw [hact]; decide))
        have hr1 := reach_pool hr rfl hst
        have e := Pool.filter_set_length' Pool.isWoken s.pool w
          (.waiting (some (s.pool.now + Pool.idleNs))) _ hw (by simp)
        simp only [Pool.isWoken, if_true, Bool.false_eq_true, if_false] at e
        obtain ⟨s2, hr2, hc2, ha2, hn2, hl2, hall2⟩ := ih _ hr1
          ⟨hc.dropped, hc.pend, hc.conns⟩ hact (by
            intro p hp
            rcases List.mem_or_eq_of_mem_set hp with h | h
            · exact hall p h
            · subst h; exact .inr rfl)
          (by simp only [Pool.count] at hcnt ⊢; omega)
        exact ⟨s2, hr2, hc2, ha2, hn2, by rw [hl2]; simp, hall2⟩
      · subst hxe; simp [Pool.isWoken] at hxs

/-- phase 5: with every idle period run out, the threads exit one by one, all but one -/
theorem exit_all_but_one : ∀ (m : Nat) (s : State), Reachable s → Dropd s →
    (∀ p ∈ s.pool.workers, p = .exited ∨ ∃ d, p = .waiting (some d) ∧ d ≤ s.pool.now) →
    s.pool.workers.length ≤ Pool.droppedActive →
    s.pool.active + s.pool.workers.length = Pool.droppedActive + Pool.count s.pool Pool.isLive →
    Pool.count s.pool Pool.isLive = m + 1 →
    ∃ s', Reachable s' ∧ Dropd s' ∧
      (∀ p ∈ s'.pool.workers, p = .exited ∨ ∃ d, p = .waiting (some d) ∧ d ≤ s'.pool.now) ∧
      s'.pool.workers.length = s.pool.workers.length ∧
      s'.pool.active + s'.pool.workers.length = Pool.droppedActive + 1 ∧
      Pool.count s'.pool Pool.isLive = 1 := by
  intro m
  induction m with
  | zero =>
    intro s hr hc hall _ hinv hcnt
    exact ⟨s, hr, hc, hall, rfl, by omega, hcnt⟩
  | succ m ih =>
    intro s hr hc hall hlen hinv hcnt
    have hne : s.pool.workers.filter Pool.isLive ≠ [] := by
      intro h0; simp [Pool.count, h0] at hcnt
    obtain ⟨x, hxm⟩ := List.exists_mem_of_ne_nil _ hne
    obtain ⟨hx, hxs⟩ := List.mem_filter.mp hxm
    obtain ⟨w, hw⟩ := exists_phase_of_mem hx
    rcases hall x hx with hxe | ⟨d, hxe, hd⟩
    · subst hxe; simp [Pool.isLive] at hxs
    · subst hxe
      have hwl := Pool.lt_of_phaseOf_ne (s := s.pool) (w := w) (by rw [hw]; simp)
      have hst1 := Pool.step_complete (.wakeTimeout w d hw hd)
      have hr1 := reach_pool hr rfl hst1
      have hst2 := Pool.step_complete (.wokenExit (s := { s.pool with
          workers := s.pool.workers.set w (.woken true) }) w
          (Pool.phaseOf_of_set_self rfl hwl) hc.pend)
      have hr2 := reach_pool hr1 rfl hst2
      have e := Pool.filter_set_length' Pool.isLive s.pool w .exited _ hw (by simp)
      simp only [Pool.isLive, if_true, Bool.false_eq_true, if_false] at e
      simp only [Pool.count] at hcnt hinv
      obtain ⟨s2, hr2', hc2, hall2, hl2, hi2, hcnt2⟩ := ih _ hr2
        ⟨hc.dropped, hc.pend, hc.conns⟩ (by
          intro p hp
          simp only [List.set_set] at hp
          rcases List.mem_or_eq_of_mem_set hp with h | h
          · exact hall p h
          · exact .inl h)
        (by simpa using hlen)
        (by simp only [Pool.count, List.set_set, List.length_set]; omega)
        (by simp only [Pool.count, List.set_set]; omega)
      exact ⟨s2, hr2', hc2, hall2, by rw [hl2]; simp, hi2, hcnt2⟩

theorem live_eq_length {ws : List Pool.WPhase} (h : ∀ p ∈ ws, Pool.isLive p = true) :
    (ws.filter Pool.isLive).length = ws.length := by
  rw [List.filter_eq_self.mpr h]

/-- a reachable state of the whole server, pool dropped, every client gone, with a worker caught
    in an untimed wait -/
theorem stuck_reachable : ∃ s w, Reachable s ∧ StuckAt w s ∧ ∀ c ∈ s.conns, c.closed = true := by
  have hdA : Pool.droppedActive = 999999999 := rfl
  have hmin : Pool.minThreads = 4 := by decide
  -- phase 1, 2
  obtain ⟨s1, hr1, hd1, hpe1, _, hlen1, hst1, hcs1⟩ := burst_reachable 999999992
  obtain ⟨s2, hr2, hc2, hlen2, hw2⟩ := settle_all _ s1 hr1 ⟨hd1, hpe1, hcs1⟩
    (fun p hp => .inl (hst1 p hp)) (Nat.le_refl _)
  -- the pool is dropped
  have hdrop := Pool.step_complete (.dropPool (s := s2.pool))
  have hr3 := reach_pool hr2 rfl hdrop
  obtain ⟨s4, hr4, hc4, ha4, hn4, hlen4, hw4⟩ := rewait_all _ _ hr3
    ⟨rfl, hc2.pend, fun c hc => (hc2.conns c hc).1⟩ rfl (by
      intro p hp
      obtain ⟨x, hx, rfl⟩ := List.mem_map.mp hp
      left; simp [hw2 x hx]) (Nat.le_refl _)
  -- the idle period passes
  have htick : Pool.step s4.pool (.tick Pool.idleNs)
      = some { s4.pool with now := s4.pool.now + Pool.idleNs } := rfl
  have hr5 := reach_pool hr4 rfl htick
  have hlen5 : s4.pool.workers.length = 999999996 := by
    rw [hlen4]; simp only [List.length_map]; rw [hlen2, hlen1, hmin]
  have hlive5 : (s4.pool.workers.filter Pool.isLive).length = s4.pool.workers.length :=
    live_eq_length (fun p hp => by rw [hw4 p hp]; rfl)
  obtain ⟨s6, hr6, hc6, hw6, hlen6, hi6, hcnt6⟩ := exit_all_but_one 999999995 _ hr5
    ⟨hc4.dropped, hc4.pend, hc4.conns⟩ (by
      intro p hp
      exact .inr ⟨_, hw4 p hp, by rw [hn4]; exact Nat.le_refl _⟩)
    (by show s4.pool.workers.length ≤ _; omega)
    (by show s4.pool.active + s4.pool.workers.length = _ + (s4.pool.workers.filter _).length
        omega)
    (by show (s4.pool.workers.filter _).length = _; omega)
  -- the last thread is woken spuriously
  have hne : s6.pool.workers.filter Pool.isLive ≠ [] := by
    intro h0; simp [Pool.count, h0] at hcnt6
  obtain ⟨x, hxm⟩ := List.exists_mem_of_ne_nil _ hne
  obtain ⟨hx, hxs⟩ := List.mem_filter.mp hxm
  obtain ⟨w, hw⟩ := exists_phase_of_mem hx
  rcases hw6 x hx with hxe | ⟨d, hxe, hd⟩
  · subst hxe; simp [Pool.isLive] at hxs
  · subst hxe
    have hwl := Pool.lt_of_phaseOf_ne (s := s6.pool) (w := w) (by rw [hw]; simp)
    have hst1 := Pool.step_complete (.wakeSpurious w _ hw)
    have hr7 := reach_pool hr6 rfl hst1
    have hact : s6.pool.active ≤ Pool.minThreads := by
      have : s6.pool.workers.length = 999999996 := by rw [hlen6]; exact hlen5
      omega
    have hst2 := Pool.step_complete (.wokenWaitU (s := { s6.pool with
        workers := s6.pool.workers.set w (.woken false) }) w
        (Pool.phaseOf_of_set_self rfl hwl) hc6.pend hact)
    have hr8 := reach_pool hr7 rfl hst2
    refine ⟨_, w, hr8, ⟨hc6.dropped, hc6.pend, hact, ?_, ?_⟩, hc6.conns⟩
    · intro p hp
      simp only [List.set_set] at hp
      rcases List.mem_or_eq_of_mem_set hp with h | h
      · rcases hw6 p h with h' | ⟨d', h', _⟩ <;> subst h' <;> rfl
      · subst h; rfl
    · left
      exact Pool.phaseOf_of_set_self rfl (by simpa using hwl)

end TH.Lts.Whole
