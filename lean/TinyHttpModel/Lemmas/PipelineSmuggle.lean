/- helper lemmas for Props/C16 pipeline_then_ws_in_header / pipeline_then_obs_fold /
   pipeline_then_bad_content_length: heads that are refused with 400 — a header line the header
   parser rejects after any number of well-formed ones, a complete head whose Content-Length is not
   a plain decimal number — in any version the request-line parser recognises; one iteration of
   the loop on them; a pipeline of framed requests followed by bytes the loop refuses -/
import TinyHttpModel.WireSpec
import TinyHttpModel.Lemmas.HeadParse
import TinyHttpModel.Lemmas.PipelineStatuses

namespace TH

/-! ### the request line, in any version the parser recognises -/

/-- the versions the request-line parser recognises (`Extracted.versionTable`) -/
def recognisedVersion (v : Version) : Prop :=
  v ∈ Extracted.versionTable.map (fun e => (⟨e.2.1, e.2.2⟩ : Version))

instance (v : Version) : Decidable (recognisedVersion v) := by
  unfold recognisedVersion; infer_instance

theorem recognisedVersion_cases (v : Version) (h : recognisedVersion v) :
    v = ⟨0, 9⟩ ∨ v = ⟨1, 0⟩ ∨ v = ⟨1, 1⟩ ∨ v = ⟨2, 0⟩ ∨ v = ⟨3, 0⟩ := by
  simpa [recognisedVersion, Extracted.versionTable] using h

theorem recognisedVersion_of_wf (v : Version) (h : v = ⟨1, 0⟩ ∨ v = ⟨1, 1⟩) : recognisedVersion v := by
  rcases h with rfl | rfl <;> simp [recognisedVersion, Extracted.versionTable]

theorem requestLine_any_version (m u : Bytes) (v : Version)
    (hm : m ≠ []) (hmw : ∀ b ∈ m, isWs b = false) (huw : ∀ b ∈ u, isWs b = false)
    (hrec : recognisedVersion v) :
    parseRequestLine (m ++ 32 :: (u ++ 32 :: Spec.versionToken v)) = some (⟨m⟩, u, v) ∧
      ∀ b ∈ Spec.versionToken v, b ≠ 10 ∧ b < 128 := by
  rcases recognisedVersion_cases v hrec with rfl | rfl | rfl | rfl | rfl
  · have e : Spec.versionToken ⟨0, 9⟩ = b!"HTTP/0.9" := by decide
    rw [e]
    exact ⟨parseRequestLine_fields m u _ _ hm hmw huw (by decide) (by decide) (by decide) (by decide),
      by decide⟩
  · have e : Spec.versionToken ⟨1, 0⟩ = b!"HTTP/1.0" := by decide
    rw [e]
    exact ⟨parseRequestLine_fields m u _ _ hm hmw huw (by decide) (by decide) (by decide) (by decide),
      by decide⟩
  · have e : Spec.versionToken ⟨1, 1⟩ = b!"HTTP/1.1" := by decide
    rw [e]
    exact ⟨parseRequestLine_fields m u _ _ hm hmw huw (by decide) (by decide) (by decide) (by decide),
      by decide⟩
  · have e : Spec.versionToken ⟨2, 0⟩ = b!"HTTP/2.0" := by decide
    rw [e]
    exact ⟨parseRequestLine_fields m u _ _ hm hmw huw (by decide) (by decide) (by decide) (by decide),
      by decide⟩
  · have e : Spec.versionToken ⟨3, 0⟩ = b!"HTTP/3.0" := by decide
    rw [e]
    exact ⟨parseRequestLine_fields m u _ _ hm hmw huw (by decide) (by decide) (by decide) (by decide),
      by decide⟩

/-! ### the front of a head: request line and header lines, without the empty line -/

/-- request line and header lines as `Spec.renderHead` writes them, without the empty line that
    ends the head -/
def Spec.renderFront (h : Head) (ows : List (Bytes × Bytes)) : Bytes :=
  h.method.token ++ [32] ++ h.url ++ [32] ++ Spec.versionToken h.version ++ crlf
    ++ Spec.renderHeaders h.headers ows

theorem Spec.renderHead_eq_front (h : Head) (ows : List (Bytes × Bytes)) :
    Spec.renderHead h ows = Spec.renderFront h ows ++ crlf := rfl

/-- a head that is well-formed apart from its version (`Spec.wfHead` fixes the version to 1.0 / 1.1,
    so it is asked of the head with the version replaced), in any version the parser recognises -/
def wfAnyVersion (h : Head) : Prop :=
  Spec.wfHead { h with version := ⟨1, 1⟩ } = true ∧ recognisedVersion h.version

theorem wfAnyVersion_of_wfHead (h : Head) (hwf : Spec.wfHead h = true) : wfAnyVersion h := by
  obtain ⟨h1, h2, h3, h4, h5, h6, h7⟩ := wfHead_elim h hwf
  refine ⟨?_, recognisedVersion_of_wf _ h6⟩
  simp only [Spec.wfHead, Bool.and_eq_true, Bool.or_eq_true] at hwf ⊢
  obtain ⟨⟨⟨⟨⟨⟨⟨a1, a2⟩, a3⟩, a4⟩, a5⟩, a6⟩, _⟩, a8⟩ := hwf
  exact ⟨⟨⟨⟨⟨⟨⟨a1, a2⟩, a3⟩, a4⟩, a5⟩, a6⟩, Or.inr (by decide)⟩, a8⟩

/-- reading a head that starts with such a front: the request line is accepted, and the result is
    what the header loop makes of the rest. -/
theorem readHead_front (h : Head) (ows : List (Bytes × Bytes)) (after : Bytes) (fin : EndState)
    (hwf : wfAnyVersion h) :
    readHead (Spec.renderFront h ows ++ after) fin =
      match readHeaders ((Spec.renderHeaders h.headers ows ++ after).length + 1) h.version
          (Spec.renderHeaders h.headers ows ++ after) fin with
      | .ok (hs, r) => .ok (⟨h.method, h.url, h.version, hs⟩, r)
      | .error e => .error e := by
  obtain ⟨hwf, hrec⟩ := hwf
  obtain ⟨hm0, hm1, hm2, hu1, hu2, _, _⟩ := wfHead_elim _ hwf
  simp only at hm0 hm1 hm2 hu1 hu2
  obtain ⟨m, u, v, hs⟩ := h
  simp only at hm0 hm1 hm2 hu1 hu2 hrec
  obtain ⟨hparse, hsafe⟩ := requestLine_any_version m.token u v hm0 hm2 hu2 hrec
  have hbytes : Spec.renderFront ⟨m, u, v, hs⟩ ows ++ after =
      (m.token ++ 32 :: (u ++ 32 :: Spec.versionToken v)) ++ 13 :: 10 ::
        (Spec.renderHeaders hs ows ++ after) := by
    simp [Spec.renderFront, crlf]
  have hline : ∀ b ∈ m.token ++ 32 :: (u ++ 32 :: Spec.versionToken v), b ≠ 10 ∧ b < 128 := by
    intro b hb
    simp only [List.mem_append, List.mem_cons] at hb
    rcases hb with hb | rfl | hb | rfl | hb
    · exact hm1 b hb
    · decide
    · exact hu1 b hb
    · decide
    · exact hsafe b hb
  rw [hbytes, readHead, readLine_line _ _ fin hline]
  simp only [hparse]
  rfl

/-- `readHead_render` in any recognised version -/
theorem readHead_render_any (h : Head) (ows : List (Bytes × Bytes)) (rest : Bytes) (fin : EndState)
    (hwf : wfAnyVersion h)
    (hows : ∀ o ∈ ows, Spec.isOwsList o.1 = true ∧ Spec.isOwsList o.2 = true) :
    readHead (Spec.renderHead h ows ++ rest) fin = .ok (h, rest) := by
  have hhs := (wfHead_elim _ hwf.1).2.2.2.2.2.2
  simp only at hhs
  rw [Spec.renderHead_eq_front, List.append_assoc, readHead_front h ows _ fin hwf]
  have e : Spec.renderHeaders h.headers ows ++ (crlf ++ rest) =
      Spec.renderHeaders h.headers ows ++ 13 :: 10 :: rest := rfl
  rw [e, readHeaders_render h.version rest fin h.headers ows _ ?_ hhs hows]
  have hlen := length_le_renderHeaders h.headers ows
  simp only [List.length_append]
  omega

/-! ### a rejected header line after well-formed ones -/

/-- a header line the header parser refuses: not empty, no LF, ASCII -/
def RejectedLine (bad : Bytes) : Prop :=
  bad ≠ [] ∧ (∀ b ∈ bad, b ≠ 10 ∧ b < 128) ∧ parseHeaderLine bad = none

/-- `readHeaders_rejected_line` with the lines before the rejected one rendered from headers -/
theorem readHeaders_render_then_rejected (ver : Version) (bad rest : Bytes) (fin : EndState)
    (hbad : RejectedLine bad) :
    ∀ (hs : List Header) (ows : List (Bytes × Bytes)) (fuel : Nat), hs.length < fuel →
      (∀ h ∈ hs, Spec.wfReqHeader h = true) →
      (∀ o ∈ ows, Spec.isOwsList o.1 = true ∧ Spec.isOwsList o.2 = true) →
      readHeaders fuel ver (Spec.renderHeaders hs ows ++ (bad ++ 13 :: 10 :: rest)) fin =
        .error (.wrongHeader ver) := by
  intro hs
  induction hs with
  | nil =>
    intro ows fuel hf _ _
    cases fuel with
    | zero => omega
    | succ fuel =>
      have : Spec.renderHeaders [] ows = [] := by cases ows <;> rfl
      rw [this, List.nil_append, readHeaders, readLine_line bad rest fin hbad.2.1]
      have hne : bad.isEmpty = false := by
        cases hb : bad with
        | nil => exact absurd hb hbad.1
        | cons _ _ => rfl
      simp [hne, hbad.2.2]
  | cons h hs ih =>
    intro ows fuel hf hwf hows
    cases fuel with
    | zero => omega
    | succ fuel =>
      have hf' : hs.length < fuel := by simp only [List.length_cons] at hf; omega
      have hwf' : ∀ x ∈ hs, Spec.wfReqHeader x = true := fun x hx => hwf x (List.mem_cons_of_mem _ hx)
      have key : ∀ (o : Bytes × Bytes) (os : List (Bytes × Bytes)),
          (Spec.isOwsList o.1 = true ∧ Spec.isOwsList o.2 = true) →
          (∀ o ∈ os, Spec.isOwsList o.1 = true ∧ Spec.isOwsList o.2 = true) →
          readHeaders (fuel + 1) ver
            (Spec.renderHeader h o ++ Spec.renderHeaders hs os ++ (bad ++ 13 :: 10 :: rest)) fin =
              .error (.wrongHeader ver) := by
        intro o os ho hos
        obtain ⟨l, hl, hle, hp⟩ :=
          readLine_renderHeader h o (Spec.renderHeaders hs os ++ (bad ++ 13 :: 10 :: rest)) fin
            (hwf h (by simp)) ho
        rw [List.append_assoc, readHeaders, hl]
        simp only [hle, hp, ih os fuel hf' hwf' hos]
        simp
      cases ows with
      | nil => exact key ([], []) [] (by decide) (by simp)
      | cons o os => exact key o os (hows o (by simp)) (fun x hx => hows x (List.mem_cons_of_mem _ hx))

/-- a head with a rejected header line after any number of well-formed ones, followed by ANY bytes
    (the head need not be terminated): `wrongHeader`, in the version of the request line. -/
theorem readHead_rejected_line (h : Head) (ows : List (Bytes × Bytes)) (bad rest : Bytes) (fin : EndState)
    (hwf : wfAnyVersion h)
    (hows : ∀ o ∈ ows, Spec.isOwsList o.1 = true ∧ Spec.isOwsList o.2 = true)
    (hbad : RejectedLine bad) :
    readHead (Spec.renderFront h ows ++ (bad ++ crlf) ++ rest) fin = .error (.wrongHeader h.version) := by
  have hhs := (wfHead_elim _ hwf.1).2.2.2.2.2.2
  simp only at hhs
  rw [List.append_assoc, readHead_front h ows _ fin hwf]
  have e : Spec.renderHeaders h.headers ows ++ (bad ++ crlf ++ rest) =
      Spec.renderHeaders h.headers ows ++ (bad ++ 13 :: 10 :: rest) := by
    simp [crlf]
  rw [e, readHeaders_render_then_rejected h.version bad rest fin hbad h.headers ows _ ?_ hhs hows]
  have hlen := length_le_renderHeaders h.headers ows
  simp only [List.length_append]
  omega

/-! ### the rejected lines of C16 -/

/-- whitespace anywhere before the colon — inside the name (`post` not empty), between the name
    and the colon (`post` empty or whitespace), in front of the name (`pre` empty) -/
theorem parseHeaderLine_ws_anywhere_in_name (pre post value : Bytes) (w : Nat) (hw : isWs w = true)
    (hpre : ∀ b ∈ pre, b ≠ 58) (hpost : ∀ b ∈ post, b ≠ 58) :
    parseHeaderLine (pre ++ [w] ++ post ++ [58] ++ value) = none := by
  apply parseHeaderLine_ws_in_name
  obtain ⟨t, ht⟩ := trimEnd_cons_nonws 58 value (by decide)
  have h1 : trimEnd (pre ++ [w] ++ post ++ [58] ++ value) = (pre ++ [w] ++ post) ++ 58 :: t := by
    have : pre ++ [w] ++ post ++ [58] ++ value = (pre ++ [w] ++ post) ++ 58 :: value := by simp
    rw [this, trimEnd_append_of_ne_nil _ _ (by rw [ht]; simp), ht]
  have h2 : ∀ b ∈ pre ++ [w] ++ post, b ≠ 58 := by
    intro b hb
    simp only [List.mem_append, List.mem_singleton] at hb
    rcases hb with (hb | rfl) | hb
    · exact hpre b hb
    · exact isWs_ne_colon _ hw
    · exact hpost b hb
  rw [h1, splitFirst_append' 58 _ t h2]
  simp [hw]

theorem rejectedLine_ws_in_name (pre post value : Bytes) (w : Nat) (hw : isWs w = true)
    (hpre : ∀ b ∈ pre, b ≠ 58) (hpost : ∀ b ∈ post, b ≠ 58)
    (hsafe : ∀ b ∈ pre ++ [w] ++ post ++ [58] ++ value, b ≠ 10 ∧ b < 128) :
    RejectedLine (pre ++ [w] ++ post ++ [58] ++ value) :=
  ⟨by simp, hsafe, parseHeaderLine_ws_anywhere_in_name pre post value w hw hpre hpost⟩

theorem rejectedLine_leading_ws (w : Nat) (l : Bytes) (hw : isWs w = true)
    (hsafe : ∀ b ∈ w :: l, b ≠ 10 ∧ b < 128) : RejectedLine (w :: l) :=
  ⟨by simp, hsafe, parseHeaderLine_leading_ws w l hw⟩

/-! ### one iteration of the loop on a head that is refused with 400 -/

theorem runLoop_wrongHeader (fuel idx : Nat) (s : St) (bs : Bytes) (fin : EndState) (script : Script)
    (v : Version) (h : readHead bs fin = .error (.wrongHeader v)) :
    runLoop (fuel + 1) idx s bs fin script =
      (s.emit 400 (some (printError 400 v false)) false).finish .closed := by
  simp only [runLoop, h]

theorem runLoop_badContentLength (fuel idx : Nat) (s : St) (bs : Bytes) (fin : EndState) (script : Script)
    (h : Head) (rest : Bytes) (hh : readHead bs fin = .ok (h, rest))
    (hf : framingOf h.headers = .error .badContentLength) :
    runLoop (fuel + 1) idx s bs fin script =
      (s.emit 400 (some (printError 400 h.version false)) false).finish .closed := by
  have hf' : framingFor h.version h.headers = .error .badContentLength :=
    (framingFor_error_iff _ _ _).2 hf
  simp only [runLoop, hh, hf']

/-- Bytes the connection loop refuses with a 400 in version `v`, in any state, whatever follows
    them: nothing is delivered, nothing after them is looked at, the connection is closed. -/
def Refused400 (bytes : Bytes) (v : Version) (fin : EndState) : Prop :=
  ∀ (fuel idx : Nat) (s : St) (tail : Bytes) (script : Script),
    runLoop (fuel + 1) idx s (bytes ++ tail) fin script =
      (s.emit 400 (some (printError 400 v false)) false).finish .closed

theorem refused400_rejected_line (h : Head) (ows : List (Bytes × Bytes)) (bad : Bytes) (fin : EndState)
    (hwf : wfAnyVersion h)
    (hows : ∀ o ∈ ows, Spec.isOwsList o.1 = true ∧ Spec.isOwsList o.2 = true)
    (hbad : RejectedLine bad) :
    Refused400 (Spec.renderFront h ows ++ (bad ++ crlf)) h.version fin := by
  intro fuel idx s tail script
  exact runLoop_wrongHeader fuel idx s _ fin script h.version
    (readHead_rejected_line h ows bad tail fin hwf hows hbad)

theorem refused400_bad_content_length (h : Head) (ows : List (Bytes × Bytes)) (fin : EndState)
    (hwf : wfAnyVersion h)
    (hows : ∀ o ∈ ows, Spec.isOwsList o.1 = true ∧ Spec.isOwsList o.2 = true)
    (c : Header) (hc : c ∈ h.headers) (hn : c.is b!"Content-Length" = true)
    (hv : strictContentLength c.value = none) :
    Refused400 (Spec.renderHead h ows) h.version fin := by
  intro fuel idx s tail script
  exact runLoop_badContentLength fuel idx s _ fin script h tail
    (readHead_render_any h ows tail fin hwf hows)
    (framingOf_bad_content_length h.headers c hc hn hv)

/-! ### a pipeline of framed requests, then bytes that are refused with 400 -/

/-- A pipeline of requests on a connection that stays open (`framed_pipeline_statuses`), then bytes
    the loop refuses with 400: there is ONE state `s'` — determined by the requests, the script
    and the way the client's stream ends — such that for EVERY `tail` the connection's trace is
    `s'` plus the 400, closed. -/
theorem framed_pipeline_then_refused {α : Type} (head : α → Head) (ows : α → List (Bytes × Bytes))
    (wire payload : α → Bytes) (declared : α → Option Nat) (ex : α → Bool) (fin : EndState) (items : List α)
    (hgood : ∀ x ∈ items, FramedMsgE (head x) (ows x) (wire x) (payload x) (declared x) (ex x) fin ∧
      isLastRequest (head x).version (head x).headers = false)
    (script : Script) :
    ∃ (s' : St),
      s'.delivered.map (fun d => (d.method, d.url, d.version, d.headers, d.bodyLength)) =
        items.map (fun x => ((head x).method, (head x).url, (head x).version, (head x).headers, declared x)) ∧
      (∀ d ∈ s'.delivered, d.last = false) ∧
      (∀ (i : Nat) (d : Delivered) (x : α),
        s'.delivered[i]? = some d → items[i]? = some x → d.bodyRead <+: payload x) ∧
      s'.statuses = pipeStatuses ex script 0 items ∧
      ∀ (bytes : Bytes) (v : Version), Refused400 bytes v fin → ∀ tail : Bytes,
        Conn.run ((items.map (fun x => Spec.renderHead (head x) (ows x) ++ wire x)).flatten ++ bytes ++ tail)
            fin script =
          (s'.emit 400 (some (printError 400 v false)) false).finish .closed := by
  obtain ⟨s', ds, hdel, hmap, hlast, hpre, hst, hrun⟩ :=
    framed_pipeline_statuses head ows wire payload declared ex fin items hgood 0 {} script
  have hdel' : s'.delivered = ds := by rw [hdel]; exact List.nil_append _
  refine ⟨s', by rw [hdel', hmap], by rw [hdel']; exact hlast, by rw [hdel']; exact hpre,
    by rw [hst]; exact List.nil_append _, ?_⟩
  intro bytes v href tail
  have hl := generic_pipeline_length_ge head ows wire items
  unfold Conn.run
  generalize hF :
    ((items.map (fun x => Spec.renderHead (head x) (ows x) ++ wire x)).flatten ++ bytes ++ tail).length + 1 = F
  have hFge : items.length + 1 ≤ F := by
    rw [← hF]
    simp only [List.length_append]
    omega
  obtain ⟨k, hk⟩ : ∃ k, F - items.length = k + 1 := ⟨F - items.length - 1, by omega⟩
  rw [List.append_assoc, hrun F _ (by omega), hk, href k _ s' tail script]

end TH
