/- helper lemmas (Ahead) -/
import TinyHttpModel.Lts.Seq
import TinyHttpModel.Req
import TinyHttpModel.WireSpec
import TinyHttpModel.Lemmas.BodyRead
import TinyHttpModel.Lemmas.Loop
import TinyHttpModel.Lemmas.LoopA
namespace TH
open TH.Req

/-- the `.buffered n` kind is only produced for `n ≤ smallBodyLimit` without `Expect`. -/
theorem framingOf_buffered (hs : List Header) (fr : Framing) (n : Nat) (hf : framingOf hs = .ok fr)
    (hk : fr.kind = .buffered n) : n ≤ Extracted.smallBodyLimit ∧ fr.expectContinue = false := by
  unfold framingOf at hf
  simp only [] at hf
  split at hf
  · cases hf
  · split at hf
    · cases hf
    · rename_i ex _
      simp only [Except.ok.injEq] at hf
      subst hf
      simp only [] at hk ⊢
      repeat' split at hk
      all_goals first
        | (cases hk; done)
        | (rename_i hc; cases hk; simp at hc; exact ⟨hc.1, hc.2⟩)

/-- one unfolding of `aheadLoop`, classified. -/
theorem aheadLoop_succ_cases (fuel : Nat) (bs : Bytes) (fin : EndState) :
    ((aheadLoop (fuel + 1) bs fin).1 = [] ∧
      ((aheadLoop (fuel + 1) bs fin).2 = .blockedOnBody → ∃ h rest, readHead bs fin = .ok (h, rest))) ∨
    ∃ h rest fr, readHead bs fin = .ok (h, rest) ∧ framingOf h.headers = .ok fr ∧
      (⟨Extracted.maxVersion.1, Extracted.maxVersion.2⟩ : Version).lt h.version = false ∧
      (∀ n, fr.kind = .buffered n → n ≤ rest.length) ∧
      ((aheadLoop (fuel + 1) bs fin).1 = [h] ∨
        ((fr.kind = .empty ∨ ∃ n, fr.kind = .buffered n) ∧ isLastRequest h.version h.headers = false ∧
          aheadLoop (fuel + 1) bs fin =
            (h :: (aheadLoop fuel (initialBody fr.kind rest).2 fin).1,
              (aheadLoop fuel (initialBody fr.kind rest).2 fin).2))) := by
  rw [aheadLoop]
  split
  · exact Or.inl ⟨rfl, fun h => by cases h⟩
  · exact Or.inl ⟨rfl, fun h => by cases h⟩
  · rename_i h rest hh
    split
    · exact Or.inl ⟨rfl, fun h => by cases h⟩
    · rename_i fr hf
      split
      · exact Or.inl ⟨rfl, fun _ => ⟨h, rest, hh⟩⟩
      · rename_i hver
        simp only [Bool.not_eq_true] at hver
        have hf : framingOf h.headers = .ok fr := by
          rw [← framingFor_of_not_high _ _ hver]; exact hf
        simp only []
        split
        · rename_i hk
          have hsh : ∀ n, fr.kind = .buffered n → n ≤ rest.length := by
            intro n hn; rw [hk] at hn; cases hn
          split
          · exact Or.inr ⟨h, rest, fr, hh, hf, hver, hsh, Or.inl rfl⟩
          · rename_i hl
            simp only [Bool.not_eq_true] at hl
            exact Or.inr ⟨h, rest, fr, hh, hf, hver, hsh, Or.inr ⟨Or.inl hk, hl, by rw [hk]; rfl⟩⟩
        · rename_i n hk
          split
          · refine Or.inl ⟨rfl, fun _ => ⟨h, rest, hh⟩⟩
          · rename_i hlen
            have hsh : ∀ m, fr.kind = .buffered m → m ≤ rest.length := by
              intro m hm; rw [hk] at hm; cases hm; omega
            split
            · exact Or.inr ⟨h, rest, fr, hh, hf, hver, hsh, Or.inl rfl⟩
            · rename_i hl
              simp only [Bool.not_eq_true] at hl
              exact Or.inr ⟨h, rest, fr, hh, hf, hver, hsh, Or.inr ⟨Or.inr ⟨n, hk⟩, hl, by rw [hk]; rfl⟩⟩
        · rename_i hne hnb
          have hsh : ∀ m, fr.kind = .buffered m → m ≤ rest.length := by
            intro m hm; exact absurd hm (hnb m)
          exact Or.inr ⟨h, rest, fr, hh, hf, hver, hsh, Or.inl rfl⟩

/-- handling a request whose body reader released the socket at parse time neither blocks nor
    moves the stream. -/
theorem handle_small (s : St) (h : Head) (fr : Framing) (last : Bool) (a : Action) (rest : Bytes)
    (fin : EndState) (hk : fr.kind = .empty ∨ ∃ n, fr.kind = .buffered n) :
    (handle s h fr last a (initialBody fr.kind rest).1 (initialBody fr.kind rest).2 fin).2.1
        = (initialBody fr.kind rest).2 ∧
    (handle s h fr last a (initialBody fr.kind rest).1 (initialBody fr.kind rest).2 fin).2.2 = false := by
  rcases hk with hk | ⟨n, hk⟩
  · rw [hk]; exact handle_done s h fr last a _ fin
  · rw [hk]; exact handle_cursor s h fr last a _ _ fin

theorem ahead_prefix (fuel : Nat) : ∀ (idx : Nat) (s : St) (bs : Bytes) (fin : EndState) (script : Script),
    ∃ more, ((runLoop fuel idx s bs fin script).delivered.drop s.delivered.length).map
        (fun d => (d.method, d.url, d.version, d.headers))
      = ((aheadLoop fuel bs fin).1.map (fun h => (h.method, h.url, h.version, h.headers))) ++ more := by
  induction fuel with
  | zero => intro idx s bs fin script; exact ⟨_, rfl⟩
  | succ fuel ih =>
    intro idx s bs fin script
    rcases aheadLoop_succ_cases fuel bs fin with ⟨hnil, _⟩ | ⟨h, rest, fr, hh, hf, hver, hsh, hc⟩
    · rw [hnil]; exact ⟨_, rfl⟩
    · obtain ⟨o, d, _, hd, hm, hu, hv, hhs, _⟩ := handle_spec s h fr (isLastRequest h.version h.headers)
        (script idx) (initialBody fr.kind rest).1 (initialBody fr.kind rest).2 fin
      rw [runLoop_step fuel idx s bs fin script h rest fr hh hf hsh hver]
      generalize hS : handle s h fr (isLastRequest h.version h.headers) (script idx)
        (initialBody fr.kind rest).1 (initialBody fr.kind rest).2 fin = S at hd
      have hdrop : ∀ ds : List Delivered, ((s.delivered ++ [d] ++ ds).drop s.delivered.length).map
          (fun d => (d.method, d.url, d.version, d.headers))
          = (h.method, h.url, h.version, h.headers) ::
              ds.map (fun d => (d.method, d.url, d.version, d.headers)) := by
        intro ds
        rw [List.append_assoc, List.drop_left]
        simp [hm, hu, hv, hhs]
      rcases hc with hc | ⟨hk, hl, hc⟩
      · -- a single head is read ahead; the loop delivers it first
        rw [hc]
        have hext : ∃ ds, (if S.2.2 = true then S.1.finish .waiting
            else if isLastRequest h.version h.headers = true then S.1.finish .closed
            else runLoop fuel (idx + 1) S.1 S.2.1 fin script).delivered = S.1.delivered ++ ds := by
          split
          · exact ⟨[], by simp⟩
          · split
            · exact ⟨[], by simp⟩
            · exact (runLoop_ext fuel (idx + 1) S.1 S.2.1 fin script).1
        obtain ⟨ds, hds⟩ := hext
        rw [hds, hd, hdrop]
        exact ⟨_, rfl⟩
      · have hsm := handle_small s h fr (isLastRequest h.version h.headers) (script idx) rest fin hk
        rw [hS] at hsm
        rw [hc, hsm.2, hl, hsm.1]
        simp only [Bool.false_eq_true, if_false]
        obtain ⟨more, hmore⟩ := ih (idx + 1) S.1 (initialBody fr.kind rest).2 fin script
        obtain ⟨ds, hds⟩ := (runLoop_ext fuel (idx + 1) S.1 (initialBody fr.kind rest).2 fin script).1
        rw [hds, List.drop_left] at hmore
        rw [hds, hd, hdrop, hmore]
        exact ⟨more, rfl⟩

end TH
