/- pool invariant: conservation of tasks (as multiset equality via `List.count`) -/
import TinyHttpModel.Lemmas.PoolInvBase
namespace TH.Lts.Pool

def startingG : WPhase → Option Nat
  | .starting (some k) => some k
  | _ => none

theorem filterMap_set_count (g : WPhase → Option Nat) (a : Nat) :
    ∀ (l : List WPhase) (w : Nat) (p : WPhase) (h : w < l.length),
      ((l.set w p).filterMap g).count a + (g l[w]).toList.count a
        = (l.filterMap g).count a + (g p).toList.count a
  | [], w, p, h => by simp at h
  | b :: l, 0, p, h => by
    simp only [List.set_cons_zero, List.filterMap_cons, List.getElem_cons_zero]
    cases g b <;> cases g p <;> simp [List.count_cons] <;> omega
  | b :: l, w+1, p, h => by
    have ih := filterMap_set_count g a l w p (by simpa using h)
    simp only [List.set_cons_succ, List.filterMap_cons, List.getElem_cons_succ]
    cases g b <;> simp [List.count_cons] <;> omega

theorem filterMap_set_count' (g : WPhase → Option Nat) (s : State) (w : Nat) (p q : WPhase)
    (hq : phaseOf s w = q) (hne : q ≠ .exited) (a : Nat) :
    ((s.workers.set w p).filterMap g).count a + (g q).toList.count a
      = (s.workers.filterMap g).count a + (g p).toList.count a := by
  have hw : w < s.workers.length := lt_of_phaseOf_ne (by rw [hq]; exact hne)
  have := filterMap_set_count g a s.workers w p hw
  rw [phaseOf_eq_getElem hw] at hq
  rw [hq] at this
  exact this

theorem filterMap_dropMap (l : List WPhase) :
    (l.map (fun p => if isWaiting p then WPhase.woken false else p)).filterMap startingG
      = l.filterMap startingG := by
  induction l with
  | nil => rfl
  | cons a l ih => cases a <;> simp_all [isWaiting, startingG, List.filterMap_cons]

def Inv2 (s : State) : Prop :=
  ∀ a, (s.started.map (·.1) ++ s.pending ++ s.workers.filterMap startingG).count a
        = s.dispatched.count a

theorem inv2_init : Inv2 init := by
  intro a
  have : init.workers.filterMap startingG = [] := by decide
  simp [this]; simp [init]

local macro "setc " hi:ident hph:ident p:term : tactic => `(tactic| (
  intro a
  have e1 := filterMap_set_count' startingG _ _ $p _ $hph (by simp) a
  have e2 := $hi a
  simp only [startingG] at e1
  simp_all [List.count_cons, List.count_append] <;> omega))

theorem inv2_step {s s' : State} {l : Label} (hi : Inv2 s) (h : step s l = some s') : Inv2 s' := by
  cases step_sound h with
  | dispNew k hd hc =>
    intro a; have := hi a
    simp_all [List.count_cons, List.count_append, startingG]; omega
  | dispQNone k hd hc hn =>
    intro a; have := hi a
    simp_all [List.count_cons, List.count_append]; omega
  | dispQSome k w dl hd hc hph => setc hi hph (.woken false)
  | beginSome w k hph => setc hi hph (.running k)
  | beginNone w hph => setc hi hph .seeking
  | finish w k hph => setc hi hph .seeking
  | seekTake w k rest hph hp => setc hi hph (.running k)
  | seekWaitU w hph hp ha => setc hi hph (.waiting none)
  | seekWaitT w hph hp ha => setc hi hph (.waiting (some (s.now + idleNs)))
  | wokenExit w hph hp => setc hi hph .exited
  | wokenTake w k b rest hph hp => setc hi hph (.running k)
  | wokenWaitU w hph hp ha => setc hi hph (.waiting none)
  | wokenWaitT w hph hp ha => setc hi hph (.waiting (some (s.now + idleNs)))
  | wakeTimeout w d hph hd => setc hi hph (.woken true)
  | wakeSpurious w dl hph => setc hi hph (.woken false)
  | tick d => exact hi
  | dropPool =>
    intro a; dsimp only; rw [filterMap_dropMap]; exact hi a

theorem inv2_reachable {s : State} (h : Reachable s) : Inv2 s :=
  reachable_invariant Inv2 inv2_init (fun _ _ _ hi h => inv2_step hi h) s h

theorem tasks_perm {s : State} (h : Reachable s) :
    (s.started.map (·.1) ++ s.pending ++ s.workers.filterMap startingG).Perm s.dispatched :=
  List.perm_iff_count.mpr (inv2_reachable h)

end TH.Lts.Pool
