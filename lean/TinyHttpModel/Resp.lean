/-
  Resp.lean — M2: response construction and serialisation.
  Mirrors src/response.rs, src/util/mod.rs (parse_header_value), src/common.rs (status line),
  chunked_transfer-1.5.0 `Encoder`.  Import-free apart from the generated constants.
-/
import TinyHttpModel.Bytes
import TinyHttpModel.Lit
import TinyHttpModel.Extracted

namespace TH

structure Header where
  name : Bytes
  value : Bytes
deriving DecidableEq, Repr, Inhabited

/-- `HeaderField::equiv`. -/
def Header.is (h : Header) (n : Bytes) : Bool := eqIgnoreCase h.name n

structure Version where
  major : Nat
  minor : Nat
deriving DecidableEq, Repr, Inhabited

/-- `Ord for HTTPVersion` (src/common.rs:345-356), as `≤`. -/
def Version.le (a b : Version) : Bool :=
  if a.major != b.major then decide (a.major < b.major) else decide (a.minor ≤ b.minor)

def Version.lt (a b : Version) : Bool :=
  if a.major != b.major then decide (a.major < b.major) else decide (a.minor < b.minor)

/-- first header with the given name (`iter().find(|h| h.field.equiv(..))`). -/
def findHeader (hs : List Header) (n : Bytes) : Option Header := hs.find? (·.is n)

/-! ## q-values and the TE header (src/util/mod.rs:25-48) -/

/-- The part of `f32` the model represents exactly: `±d{1,3}[.d{0,3}]` as thousandths. -/
structure Q where
  neg : Bool
  milli : Nat
deriving DecidableEq, Repr, Inhabited

inductive QParse where
  | fail                -- `f32::from_str` is `Err`, or (after the F6 repair) the value is NaN
  | ok (q : Q)
  | unmodelled          -- accepted by `f32::from_str` but outside the modelled grammar
deriving DecidableEq, Repr

def takeDigits : Bytes → Bytes × Bytes
  | [] => ([], [])
  | b :: bs => if isDigit b then let (d, r) := takeDigits bs; (b :: d, r) else ([], b :: bs)

def padMilli (frac : Bytes) : Nat :=
  match frac with
  | [] => 0
  | [a] => (a - 48) * 100
  | [a, b] => (a - 48) * 100 + (b - 48) * 10
  | a :: b :: c :: _ => (a - 48) * 100 + (b - 48) * 10 + (c - 48)

/-- Rust `f32::from_str` grammar: `[+-] ( inf | infinity | nan | digits [. digits] [e[+-]digits] )`. -/
def parseQ (s : Bytes) : QParse :=
  let (neg, r) := match s with
    | 43 :: r => (false, r)
    | 45 :: r => (true, r)
    | r => (false, r)
  let lr := lower r
  if lr == b!"nan" then .fail            -- NaN q-values are treated as malformed (F6 repair)
  else if lr == b!"inf" || lr == b!"infinity" then .unmodelled
  else
    let (ip, r1) := takeDigits r
    let (fp, r2, dot) := match r1 with
      | 46 :: r1' => let (f, r2) := takeDigits r1'; (f, r2, true)
      | _ => ([], r1, false)
    let _ := dot
    if ip.isEmpty && fp.isEmpty then .fail
    else match r2 with
      | [] =>
        if ip.length ≤ 3 && fp.length ≤ 3 then
          .ok ⟨neg, (ofDecAux ip 0).getD 0 * 1000 + padMilli fp⟩
        else .unmodelled
      | e :: r3 =>
        if e == 101 || e == 69 then
          let r4 := match r3 with
            | 43 :: x => x
            | 45 :: x => x
            | x => x
          let (ed, r5) := takeDigits r4
          if !ed.isEmpty && r5.isEmpty then .unmodelled else .fail
        else .fail

/-- q > 0 -/
def Q.pos (q : Q) : Bool := !q.neg && decide (0 < q.milli)

/-- strict `a > b` on the represented values. -/
def Q.gt (a b : Q) : Bool :=
  match a.neg, b.neg with
  | false, false => decide (b.milli < a.milli)
  | false, true => decide (0 < a.milli ∨ 0 < b.milli)
  | true, false => false
  | true, true => decide (a.milli < b.milli)

def qOne : Q := ⟨false, 1000⟩

/-- the `for p in params` loop of `parse_header_value`: first `q=` parameter that parses wins.
    `none` = an unmodelled q was met. -/
def scanParams : List Bytes → Option Q
  | [] => some qOne
  | p :: ps =>
    let t := trimStart p
    if startsWith t b!"q=" then
      match parseQ (trim (t.drop 2)) with
      | .ok q => some q
      | .unmodelled => none
      | .fail => scanParams ps
    else scanParams ps

/-- one element of the comma-separated list: (trimmed name, q). -/
def parseElem (e : Bytes) : Option (Bytes × Q) :=
  match splitOn 59 e with
  | [] => none
  | t :: params => (scanParams params).map (fun q => (trim t, q))

/-- `parse_header_value`; `none` iff some element carries an unmodelled q. -/
def parseHeaderValue (v : Bytes) : Option (List (Bytes × Q)) :=
  (splitOn 44 v).mapM parseElem

/-- insert `x`, which arrived *before* everything in the (already sorted) list: it goes after
    every element with a strictly greater q and in front of the others (stability). -/
def insertFront (x : Bytes × Q) : List (Bytes × Q) → List (Bytes × Q)
  | [] => [x]
  | y :: ys => if y.2.gt x.2 then y :: insertFront x ys else x :: y :: ys

/-- `sort_by(|a, b| b.1.partial_cmp(&a.1))` — a stable sort by descending q. -/
def sortDesc : List (Bytes × Q) → List (Bytes × Q)
  | [] => []
  | x :: xs => insertFront x (sortDesc xs)

inductive Coding where
  | identity
  | chunked
deriving DecidableEq, Repr, Inhabited

/-- `TransferEncoding::from_str`. -/
def codingOfName (n : Bytes) : Option Coding :=
  if eqIgnoreCase n b!"identity" then some .identity
  else if eqIgnoreCase n b!"chunked" then some .chunked
  else none

/-- the `for value in parse.iter()` selection loop. -/
def pickCoding : List (Bytes × Q) → Option Coding
  | [] => none
  | (n, q) :: rest =>
    if !q.pos then pickCoding rest
    else match codingOfName n with
      | some c => some c
      | none => pickCoding rest

/-- what the TE header asks for: `some none` = nothing usable, `none` = unmodelled q. -/
def teRequest (reqHeaders : List Header) : Option (Option Coding) :=
  match findHeader reqHeaders b!"TE" with
  | none => some none
  | some h =>
    match parseHeaderValue h.value with
    | none => none
    | some l => some (pickCoding (sortDesc l))

/-- `choose_transfer_encoding` (src/response.rs:112-184); `none` = unmodelled q in TE. -/
def chooseTransferEncoding (status : Nat) (reqHeaders : List Header) (ver : Version)
    (len : Option Nat) (threshold : Nat) : Option Coding :=
  if ver.le ⟨Extracted.identityOnlyVersion.1, Extracted.identityOnlyVersion.2⟩ then some .identity
  else if Extracted.teExcludedStatus status then some .identity
  else match teRequest reqHeaders with
    | none => none
    | some (some c) => some c
    | some none =>
      match len with
      | none => some .chunked
      | some l => if Extracted.thresholdReached l threshold then some .chunked else some .identity

/-! ## Response objects (src/response.rs:186-323, 488-562) -/

structure Resp where
  status : Nat
  headers : List Header
  dataLength : Option Nat
  threshold : Option Nat
deriving DecidableEq, Repr, Inhabited

def isProtected (h : Header) : Bool := Extracted.protectedHeaders.any (fun n => h.is n)

/-- replace the value of the first `Content-Type` header; `none` if there is none. -/
def replaceContentType (v : Bytes) : List Header → Option (List Header)
  | [] => none
  | h :: hs =>
    if h.is b!"Content-Type" then some ({ h with value := v } :: hs)
    else (replaceContentType v hs).map (h :: ·)

/-- `Response::add_header` (src/response.rs:251-286). -/
def addHeader (r : Resp) (h : Header) : Resp :=
  if isProtected h then r
  else if h.is b!"Content-Length" then
    match usizeFromStr h.value with
    | some n => { r with dataLength := some n }
    | none => r
  else if h.is b!"Content-Type" then
    match replaceContentType h.value r.headers with
    | some hs => { r with headers := hs }
    | none => { r with headers := r.headers ++ [h] }
  else { r with headers := r.headers ++ [h] }

/-- `Response::new`. -/
def Resp.new (status : Nat) (hs : List Header) (len : Option Nat) : Resp :=
  hs.foldl addHeader ⟨status, [], len, none⟩

def ctHeader : Header := ⟨b!"Content-Type", b!"text/plain; charset=UTF-8"⟩

/-- `Response::from_string` (the argument is the UTF-8 encoding of the string). -/
def Resp.fromString (s : Bytes) : Resp := Resp.new 200 [ctHeader] (some s.length)

/-- `Response::from_data`, and `from_file` for a file whose metadata length is its content length. -/
def Resp.fromData (d : Bytes) : Resp := Resp.new 200 [] (some d.length)

/-- `Response::empty`. -/
def Resp.empty (status : Nat) : Resp := Resp.new status [] (some 0)

/-- `Response::with_data` (the new reader is carried separately as `pieces`). -/
def Resp.withData (r : Resp) (len : Option Nat) : Resp := { r with dataLength := len }

def Resp.chunkedThreshold (r : Resp) : Nat := r.threshold.getD Extracted.defaultThreshold

/-! ## Serialisation -/

def lookupReason (s : Nat) : List (Nat × Bytes) → Bytes
  | [] => Extracted.reasonDefault
  | (c, t) :: rest => if c = s then t else lookupReason s rest

def reasonPhrase (s : Nat) : Bytes := lookupReason s Extracted.reasonTable

def headerLine (h : Header) : Bytes := h.name ++ b!": " ++ h.value ++ crlf

/-- `write_message_header` (src/response.rs:79-110). -/
def messageHeader (ver : Version) (status : Nat) (hs : List Header) : Bytes :=
  b!"HTTP/" ++ toDec ver.major ++ b!"." ++ toDec ver.minor ++ b!" " ++ toDec status ++ b!" "
    ++ reasonPhrase status ++ crlf ++ (hs.map headerLine).flatten ++ crlf

def chunkSize : Nat := 8192

/-- one chunk on the wire (`Encoder::send`). -/
def chunkFrame (c : Bytes) : Bytes := toHex c.length ++ crlf ++ c ++ crlf

/-- state of `chunked_transfer::Encoder`: bytes already handed to the output, pending buffer. -/
structure Enc where
  out : Bytes
  buf : Bytes
deriving Repr

def Enc.send (e : Enc) : Enc :=
  if e.buf.isEmpty then e else ⟨e.out ++ chunkFrame e.buf, []⟩

/-- `Encoder::write` followed by its internal `write_all` of the overflow (fuel-bounded loop). -/
def Enc.write : Nat → Enc → Bytes → Enc
  | 0, e, _ => e
  | fuel + 1, e, data =>
    let room := chunkSize - e.buf.length
    let n := min room data.length
    let e1 : Enc := ⟨e.out, e.buf ++ data.take n⟩
    if n < data.length then Enc.write fuel e1.send (data.drop n) else e1

/-- `Drop for Encoder`: flush, then the terminal chunk. -/
def Enc.finish (e : Enc) : Bytes := e.send.out ++ b!"0\r\n\r\n"

/-- `io::copy(reader, Encoder::new(writer))` + drop, for a reader that yields `pieces`. -/
def encodeChunked (pieces : List Bytes) : Bytes :=
  (pieces.foldl (fun e p => Enc.write (p.length + 2) e p) ⟨[], []⟩).finish

/-- request-side context of `raw_print`. -/
structure ReqCtx where
  version : Version
  reqHeaders : List Header
  noBody : Bool              -- `do_not_send_body` (HEAD)
  upgrade : Option Bytes
deriving Repr, Inhabited

def insertAuto (hs : List Header) (date : Bytes) (upgrade : Option Bytes) : List Header :=
  let hs := if hs.any (·.is b!"Date") then hs else ⟨b!"Date", date⟩ :: hs
  let hs := if hs.any (·.is b!"Server") then hs else ⟨b!"Server", Extracted.serverName⟩ :: hs
  match upgrade with
  | some p => ⟨b!"Connection", b!"upgrade"⟩ :: ⟨b!"Upgrade", p⟩ :: hs
  | none => hs

/-- the framing decision of `raw_print`: coding (none for upgrade) and the length announced. -/
def framing (r : Resp) (c : ReqCtx) (bodyLen : Nat) : Option (Option Coding × Option Nat) :=
  match chooseTransferEncoding r.status c.reqHeaders c.version r.dataLength r.chunkedThreshold with
  | none => none
  | some te =>
    let te := if c.upgrade.isSome then none else some te
    let len := match r.dataLength, te with
      | some l, _ => some l
      | none, some .identity => some bodyLen
      | none, _ => none
    some (te, len)

def framingHeader : Option Coding → Option Nat → List Header
  | some .chunked, _ => [⟨b!"Transfer-Encoding", b!"chunked"⟩]
  | some .identity, some l => [⟨b!"Content-Length", toDec l⟩]
  | _, _ => []

/-- `Response::raw_print` (src/response.rs:334-454).  `pieces` is what successive reads of the
    body reader return; `date` the value `build_date_header` produced.  `none` = unmodelled q. -/
def rawPrint (r : Resp) (c : ReqCtx) (date : Bytes) (pieces : List Bytes) : Option Bytes :=
  let body := pieces.flatten
  match framing r c body.length with
  | none => none
  | some (te, len) =>
    let hs := insertAuto r.headers date c.upgrade ++ framingHeader te len
    let suppress := c.noBody || Extracted.noBodyStatus r.status
    let head := messageHeader c.version r.status hs
    let bodyBytes :=
      if suppress then []
      else match te, len with
        | some .chunked, _ => encodeChunked pieces
        | some .identity, some l => if 1 ≤ l then body else []
        | _, _ => []
    some (head ++ bodyBytes)

end TH
