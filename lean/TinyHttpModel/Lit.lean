/-
  Lit.lean — `b!"text"` expands, at elaboration time, to the explicit `List Nat` of the UTF-8
  bytes of the literal, so that byte-string constants are ordinary list literals for the kernel
  (string literals themselves do not reduce well).
-/
namespace TH

open Lean in
macro:max "b!" s:str : term => do
  let bs : Array (TSyntax `term) :=
    (s.getString.toUTF8.toList.map
      (fun b => (Syntax.mkNumLit (toString b.toNat) : TSyntax `term))).toArray
  `(([$bs,*] : List Nat))

end TH
