/-
  WireSpec.lean — declarative renderings and well-formedness predicates used in the statements of
  C02, C03, C09, C10, C12, C16, C18 (what a conforming client *sends*), written from RFC 7230.
-/
import TinyHttpModel.Conn

namespace TH.Spec

/-- optional whitespace: only SP / HTAB. -/
def isOwsList (l : Bytes) : Bool := l.all (fun b => b == 32 || b == 9)

/-- no CR, no LF, ASCII. -/
def lineSafe (l : Bytes) : Bool := l.all (fun b => b != 13 && b != 10 && b < 128)

/-- a header as the generator's abstract request holds it (and as it must be delivered):
    name without whitespace / colon / CR / LF, value without CR / LF and without surrounding
    whitespace. -/
def wfReqHeader (h : Header) : Bool :=
  lineSafe h.name && !h.name.any isWs && !h.name.contains 58
    && lineSafe h.value && trim h.value == h.value

/-- version token for a version in the table. -/
def versionToken (v : Version) : Bytes :=
  b!"HTTP/" ++ toDec v.major ++ b!"." ++ toDec v.minor

/-- a request head a conforming HTTP/1.0 or 1.1 client may send. -/
def wfHead (h : Head) : Bool :=
  !h.method.token.isEmpty && lineSafe h.method.token && !h.method.token.any isWs
    && !h.url.isEmpty && lineSafe h.url && !h.url.any isWs
    && (h.version == ⟨1, 0⟩ || h.version == ⟨1, 1⟩)
    && h.headers.all wfReqHeader

/-- `name ":" OWS value OWS CRLF` -/
def renderHeader (h : Header) (o : Bytes × Bytes) : Bytes :=
  h.name ++ [58] ++ o.1 ++ h.value ++ o.2 ++ crlf

def renderHeaders : List Header → List (Bytes × Bytes) → Bytes
  | [], _ => []
  | h :: hs, [] => renderHeader h ([], []) ++ renderHeaders hs []
  | h :: hs, o :: os => renderHeader h o ++ renderHeaders hs os

/-- the head on the wire, with arbitrary optional whitespace around each header value. -/
def renderHead (h : Head) (ows : List (Bytes × Bytes)) : Bytes :=
  h.method.token ++ [32] ++ h.url ++ [32] ++ versionToken h.version ++ crlf
    ++ renderHeaders h.headers ows ++ crlf

/-! ### chunked request bodies -/

/-- one chunk as a client may send it: size in hex (any case, leading zeros), optional
    extension, CRLF, data, CRLF.  `size` is the size field as sent. -/
structure SentChunk where
  sizeField : Bytes        -- hex digits (the value must equal data.length)
  ext : Bytes              -- "" or ";..." without CR
  data : Bytes
deriving Repr, Inhabited

def wfChunk (c : SentChunk) : Bool :=
  !c.data.isEmpty && usizeFromHex c.sizeField == some c.data.length
    && c.sizeField.all (fun b => b != 13 && b != 59 && b < 128) && trim c.sizeField == c.sizeField
    && (c.ext.isEmpty || (c.ext.head? == some 59 && c.ext.all (· != 13)))

def renderChunk (c : SentChunk) : Bytes := c.sizeField ++ c.ext ++ crlf ++ c.data ++ crlf

/-- the terminal chunk: zero in hex (`0`, `00`, …), CRLF, CRLF. -/
def renderChunked (cs : List SentChunk) (zero : Bytes) : Bytes :=
  (cs.map renderChunk).flatten ++ zero ++ crlf ++ crlf

def chunkPayload (cs : List SentChunk) : Bytes := (cs.map (·.data)).flatten

/-! ### C12: persistence, written from the statement -/

/-- "an HTTP/1.1 request whose Connection header contains close or upgrade, or an HTTP/1.0
    request without Connection: keep-alive" — read literally, on the lower-cased first
    Connection header. -/
def isLast (ver : Version) (conn : Option Bytes) : Bool :=
  match conn with
  | some v =>
    let v := lower v
    if ver == ⟨1, 0⟩ then !containsSub v b!"keep-alive"
    else containsSub v b!"close" || containsSub v b!"upgrade"
  | none => ver == ⟨1, 0⟩

/-- the one corner where the statement's two clauses and RFC 7230 §6.1 pull apart: an HTTP/1.0
    request that says both keep-alive and close/upgrade.  Left unconstrained. -/
def contradictory (ver : Version) (conn : Option Bytes) : Bool :=
  match conn with
  | some v =>
    let v := lower v
    ver == ⟨1, 0⟩ && containsSub v b!"keep-alive" && (containsSub v b!"close" || containsSub v b!"upgrade")
  | none => false

/-! ### status codes a finish produces (C06 / C18) -/

def finishStatus : Finish → List Nat
  | .respond r => [r.status]
  | .drop => [500]
  | .writer _ => []
  | .upgrade _ r _ => [r.status]
  | .respondFail r _ => [r.status]

end TH.Spec
