/-
  Proto.lean — line-protocol helpers for the driver (hex, key=value fields). Import-free.
-/
import TinyHttpModel.Resp

namespace TH.Proto

def hexNib (c : Char) : Nat :=
  let n := c.toNat
  if 48 ≤ n ∧ n ≤ 57 then n - 48
  else if 97 ≤ n ∧ n ≤ 102 then n - 87
  else if 65 ≤ n ∧ n ≤ 70 then n - 55
  else 0

def unhexL : List Char → Bytes
  | a :: b :: rest => (hexNib a * 16 + hexNib b) :: unhexL rest
  | _ => []

def nibU (b : UInt8) : Nat :=
  let n := b.toNat
  if 48 ≤ n ∧ n ≤ 57 then n - 48
  else if 97 ≤ n ∧ n ≤ 102 then n - 87
  else if 65 ≤ n ∧ n ≤ 70 then n - 55
  else 0

/-- hex → bytes, right to left over the UTF-8 bytes of the string (no intermediate char list). -/
def unhexBA (a : ByteArray) : Nat → Bytes → Bytes
  | 0, acc => acc
  | 1, acc => acc
  | n + 2, acc => unhexBA a n ((nibU (a.get! n) * 16 + nibU (a.get! (n + 1))) :: acc)

def unhex (s : String) : Bytes :=
  let a := s.toUTF8
  unhexBA a (a.size - a.size % 2) []

def nibChar (n : Nat) : Char := Char.ofNat (if n < 10 then n + 48 else n + 87)

def hex (bs : Bytes) : String :=
  String.ofList (bs.foldr (fun b acc => nibChar (b / 16 % 16) :: nibChar (b % 16) :: acc) [])

/-- split a char list on a separator (n separators ⇒ n+1 fields). -/
def splitC (c : Char) : List Char → List (List Char)
  | [] => [[]]
  | x :: xs =>
    if x = c then [] :: splitC c xs
    else match splitC c xs with
      | [] => [[x]]
      | f :: fs => (x :: f) :: fs

def splitS (c : Char) (s : String) : List String := s.splitOn (String.singleton c)

/-- like `splitS` but the empty string gives the empty list. -/
def listS (c : Char) (s : String) : List String := if s.isEmpty then [] else splitS c s

def natOfChars : List Char → Nat → Option Nat
  | [], acc => some acc
  | c :: cs, acc =>
    let n := c.toNat
    if 48 ≤ n ∧ n ≤ 57 then natOfChars cs (acc * 10 + (n - 48)) else none

def toNat? (s : String) : Option Nat := if s.isEmpty then none else natOfChars s.toList 0

def toNatD (s : String) : Nat := (toNat? s).getD 0

/-- `none` for "none", else a number. -/
def optNat (s : String) : Option Nat := if s == "none" then none else toNat? s

abbrev KV := List (String × String)

def kvOf (tok : String) : String × String :=
  match tok.splitOn "=" with
  | [] => ("", "")
  | [k] => (k, "")
  | k :: v :: _ => (k, v)

def fields (line : String) : KV := (splitS ' ' line).map kvOf

def get (kv : KV) (k : String) : String :=
  match kv.find? (·.1 == k) with
  | some (_, v) => v
  | none => ""

def has (kv : KV) (k : String) : Bool := kv.any (·.1 == k)

/-- `name:value` with both sides hex. -/
def headerOf (s : String) : Header :=
  match splitS ':' s with
  | n :: v :: _ => ⟨unhex n, unhex v⟩
  | [n] => ⟨unhex n, []⟩
  | [] => ⟨[], []⟩

def headersOf (s : String) : List Header := (listS ',' s).map headerOf

def hexHeader (h : Header) : String := hex h.name ++ ":" ++ hex h.value

def hexHeaders (hs : List Header) : String := ",".intercalate (hs.map hexHeader)

/-- pieces separated by `sep`; "" ⇒ no pieces; a lone "-" piece is the empty piece. -/
def piecesOf (sep : Char) (s : String) : List Bytes :=
  (listS sep s).map (fun p => if p == "-" then [] else unhex p)

def versionOf (s : String) : Version :=
  match splitS '.' s with
  | a :: b :: _ => ⟨toNatD a, toNatD b⟩
  | _ => ⟨1, 1⟩

def showOptNat : Option Nat → String
  | none => "none"
  | some n => toString n

def b01 (b : Bool) : String := if b then "1" else "0"

end TH.Proto
