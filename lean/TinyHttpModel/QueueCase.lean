/-
  QueueCase.lean — `queue` cases of the line protocol: the label sequence mapped from the
  controlled run of the real `MessagesQueue` must be an execution of `Lts.Queue` (trace
  acceptance), the results the LTS computes must be the results the implementation returned,
  and the C07 / C17 predicates are evaluated on the implementation's history.
-/
import TinyHttpModel.Proto
import TinyHttpModel.Lts.Queue

namespace TH.QueueCase
open TH.Proto TH.Lts.Queue

def optTid (s : String) : Option (Option Nat) :=
  if s == "-" then some none else (toNat? s).map some

def callOf (s : String) : Option Call :=
  if s == "pop" then some .pop
  else if s == "try" then some .tryPop
  else match s.toList with
    | 't' :: 'o' :: r => (natOfChars r 0).map (fun us => .popTimeout (us * 1000))
    | _ => none

def labelOf (s : String) : Option Label :=
  match s.toList with
  | '+' :: r => (natOfChars r 0).map .tick
  | 'L' :: r => (natOfChars r 0).map .look
  | 'T' :: r => (natOfChars r 0).map (fun t => .wake t .timeout)
  | 'S' :: r => (natOfChars r 0).map (fun t => .wake t .spurious)
  | 'c' :: r =>
    (match splitC ':' r with
     | [t, c] => (match natOfChars t 0, callOf (String.ofList c) with
        | some t, some c => some (.call t c)
        | _, _ => none)
     | _ => none)
  | 'P' :: r =>
    (match splitC ':' r with
     | [v, w] => (match natOfChars v 0, optTid (String.ofList w) with
        | some v, some w => some (.push v w)
        | _, _ => none)
     | _ => none)
  | 'U' :: ':' :: r => (optTid (String.ofList r)).map .unblock
  | _ => none

/-- run, reporting the index of the first rejected label. -/
def runIdx : State → List Label → Nat → State × Option Nat
  | s, [], _ => (s, none)
  | s, l :: ls, i =>
    match step s l with
    | some s' => runIdx s' ls (i + 1)
    | none => (s, some i)

/-- one completed or pending call as the harness saw it: (call, start, end?, result?) -/
structure HRec where
  call : String
  start : Nat
  fin : Option Nat
  res : String          -- value | "none" | "blocked"
deriving Repr, BEq

def hrecOf (s : String) : HRec :=
  match splitS ':' s with
  | [c, a, b, r] => ⟨c, toNatD a, toNat? b, r⟩
  | _ => ⟨"?", 0, none, "?"⟩

def callStr : Call → String
  | .pop => "pop"
  | .tryPop => "try"
  | .popTimeout T => "to" ++ toString (T / 1000)

def resStr : Res → String
  | .value v => toString v
  | .byToken => "none"
  | .empty => "none"

/-- the model's view of thread t's history: completed calls from the log, then the pending one. -/
def modelHist (s : State) (t : Nat) : List HRec :=
  let done := (s.log.filter (·.tid == t)).map (fun r => (⟨callStr r.call, r.callStart, some r.retTime, resStr r.res⟩ : HRec))
  let pend : List HRec := match phaseOf s t with
    | .idle => []
    | .ready c cs _ _ => [⟨callStr c, cs, none, "blocked"⟩]
    | .waiting c cs _ _ _ => [⟨callStr c, cs, none, "blocked"⟩]
    | .woken c cs _ _ _ => [⟨callStr c, cs, none, "blocked"⟩]
  done ++ pend

def itemStr : Item → String
  | .elem v => toString v
  | .token => "tok"

/-! oracles on the implementation's history alone -/

def valuesOf (h : List HRec) : List Nat := h.filterMap (fun r => toNat? r.res)

/-- is `sub` a subsequence of `l`? -/
def isSubseq : List Nat → List Nat → Bool
  | [], _ => true
  | _ :: _, [] => false
  | a :: as, b :: bs => if a == b then isSubseq as bs else isSubseq (a :: as) bs

def timeoutOf (c : String) : Option Nat :=
  match c.toList with
  | 't' :: 'o' :: r => (natOfChars r 0).map (· * 1000)
  | _ => none

/-- anonymous pushes (`P:<w>`, whole-server runs: which request a connection thread queues is not
    visible from outside) get their ordinal as value. -/
def numberPushes : List String → Nat → List String
  | [], _ => []
  | l :: ls, k =>
    if l.startsWith "P:" then ("P" ++ toString k ++ (l.drop 1).toString) :: numberPushes ls (k + 1)
    else l :: numberPushes ls k

/-- extend a one-to-one map ordinal ↦ request id, or fail. -/
def bind (m : List (Nat × Nat)) (o v : Nat) : Option (List (Nat × Nat)) :=
  match m.find? (fun p => p.1 == o), m.find? (fun p => p.2 == v) with
  | some p, _ => if p.2 == v then some m else none
  | none, some _ => none
  | none, none => some ((o, v) :: m)

/-- the model's records against the implementation's, values matched through the map. -/
def matchRecs : List HRec → List HRec → List (Nat × Nat) → Option (List (Nat × Nat))
  | [], [], m => some m
  | a :: as, b :: bs, m =>
    if a.call == b.call && a.start == b.start && a.fin == b.fin then
      match toNat? a.res, toNat? b.res with
      | some o, some v => (match bind m o v with
          | some m' => matchRecs as bs m'
          | none => none)
      | none, none => if a.res == b.res then matchRecs as bs m else none
      | _, _ => none
    else none
  | _, _, _ => none

def matchHists : List (List HRec) → List (List HRec) → List (Nat × Nat) → Option (List (Nat × Nat))
  | [], [], m => some m
  | a :: as, b :: bs, m =>
    (match matchRecs a b m with
     | some m' => matchHists as bs m'
     | none => none)
  | _, _, _ => none

def matchLeft : List Item → List String → List (Nat × Nat) → Bool
  | [], [], _ => true
  | .token :: is, "tok" :: ls, m => matchLeft is ls m
  | .elem o :: is, l :: ls, m =>
    (match toNat? l with
     | some v => (match bind m o v with
        | some m' => matchLeft is ls m'
        | none => false)
     | none => false)
  | _, _, _ => false

/-- the times (ns) at which the implementation executed an `unblock`, read off the label stream. -/
def unblockTimes : List Label → Nat → List Nat
  | [], _ => []
  | .tick d :: ls, now => unblockTimes ls (now + d)
  | .unblock _ :: ls, now => now :: unblockTimes ls now
  | _ :: ls, now => unblockTimes ls now

/-- C17, "each call to unblock makes one receive call return without a request", in time: in a
    zero-latency run, when `k` unblocks are issued at instant `t`, either `k` receive calls return
    empty-handed at that very instant, or no receiver that had entered its call before `t` is still
    inside it afterwards (a receiver released at `t` by a request that arrived at the same instant
    does not count: the unblock then stays queued for the next call). -/
def unblockPrompt (recs : List HRec) (times : List Nat) : Bool :=
  times.eraseDups.all (fun t =>
    let k := (times.filter (· == t)).length
    let stillBlocked := (recs.filter (fun r => decide (r.start < t) && (match r.fin with | some f => decide (t < f) | none => true))).length
    let released := (recs.filter (fun r => r.res == "none" && r.fin == some t)).length
    decide (k ≤ released) || stillBlocked == 0)

/-- `extra`: a further agreement verdict computed elsewhere (whole-server replay), with tags and a
    description of what went wrong. -/
def runWith (kv : KV) (extra : Bool × List String × String) : String :=
  let anon := get kv "anon" == "1"
  let labelStrs := if anon then numberPushes (listS ',' (get kv "labels")) 0 else listS ',' (get kv "labels")
  let labels := labelStrs.filterMap labelOf
  let parsedAll := labels.length == labelStrs.length
  let (s, rej) := runIdx {} labels 0
  let accepted := parsedAll && rej.isNone
  let hist : List (List HRec) := (splitS '|' (get kv "hist")).map (fun c => (listS ',' c).map hrecOf)
  let prods : List (List String) := (splitS '|' (get kv "prods")).map (listS ',')
  let pushedBy : List (List Nat) := prods.map (fun ops => ops.filterMap (fun o => match o.toList with
    | 'p' :: r => natOfChars r 0
    | _ => none))
  let nUnblock := (prods.map (fun ops => (ops.filter (· == "u")).length)).foldl (· + ·) 0
  let left := listS ',' (get kv "left")
  let leftKnown := !left.contains "?"
  let leftVals := left.filterMap toNat?
  let leftToks := (left.filter (· == "tok")).length
  let blocked := (listS ',' (get kv "blocked")).filterMap toNat?
  -- model vs implementation
  let mh := (List.range hist.length).map (modelHist s)
  let bij := if anon then matchHists mh hist [] else none
  let aHist := accepted && (if anon then bij.isSome else mh == hist)
  let aLeft := accepted && (!leftKnown || (if anon then matchLeft s.queue left (bij.getD []) else s.queue.map itemStr == left))
  let aBlocked := accepted && (blocked == (List.range hist.length).filter (fun t => isWaiting (phaseOf s t)))
  -- C07 oracle: exactly once, per-producer order per receiver, no lost wake-up
  let allTaken := (hist.map valuesOf).flatten
  let allPushed := pushedBy.flatten
  let total := allTaken ++ leftVals
  let exactlyOnce := total.length == allPushed.length && allPushed.all (fun v => (total.filter (· == v)).length == 1)
  let perProducerOrder := hist.all (fun h => pushedBy.all (fun p =>
      isSubseq ((valuesOf h).filter (fun v => p.contains v)) p))
  let blockedPop := blocked.any (fun t => match (hist.getD t []).getLast? with
    | some r => r.call == "pop" && r.res == "blocked"
    | none => false)
  let noLostWakeup := !blockedPop || (leftVals.isEmpty && leftToks == 0)
  let quiet := get kv "quiet" == "1" && get kv "aborted" == "0"
  let c07 := exactlyOnce && perProducerOrder && noLostWakeup && quiet
  -- C17 oracle: tokens release exactly one call each; bounds of recv_timeout; try never blocks
  let allRecs := hist.flatten
  let popNone := (allRecs.filter (fun r => r.call == "pop" && r.res == "none")).length
  let isEarly (r : HRec) : Bool := match timeoutOf r.call, r.fin with
    | some T, some f => r.res == "none" && decide (f - r.start + slackNs ≤ T)
    | _, _ => false
  let earlyNone := (allRecs.filter isEarly).length
  let otherNone := (allRecs.filter (fun r => r.res == "none" && r.call != "pop" && !isEarly r)).length
  let consumed := nUnblock - leftToks
  let tokensOk := !leftKnown || (decide (popNone + earlyNone ≤ consumed) && decide (consumed ≤ popNone + earlyNone + otherNone))
  let zeroLatency := get kv "ptimer" == "0"
  let upperOk := !zeroLatency || allRecs.all (fun r => match timeoutOf r.call, r.fin with
    | some T, some f => r.res != "none" || decide (f - r.start < 2 * T)
    | _, _ => true)
  let tryOk := !zeroLatency || allRecs.all (fun r => r.call != "try" || r.fin == some r.start)
  let promptOk := !zeroLatency || unblockPrompt allRecs (unblockTimes labels 0)
  let c17 := tokensOk && upperOk && tryOk && promptOk && exactlyOnce && quiet
  let tags := [
    "tmax:" ++ b01 (decide (1 < ((get kv "cons").splitOn "to18446744073709551615").length)),
    "ptimer:" ++ get kv "ptimer", "preempt:" ++ b01 (decide (0 < toNatD (get kv "preempt"))),
    "unblock:" ++ b01 (decide (0 < nUnblock)),
    "timed:" ++ b01 (allRecs.any (fun r => (timeoutOf r.call).isSome)),
    "timeoutexp:" ++ b01 (allRecs.any (fun r => (timeoutOf r.call).isSome && r.res == "none" && !isEarly r)),
    "timedtook:" ++ b01 (allRecs.any (fun r => (timeoutOf r.call).isSome && (toNat? r.res).isSome && r.fin != some r.start)),
    "blocked:" ++ b01 (!blocked.isEmpty),
    "left:" ++ b01 (!leftVals.isEmpty),
    "recv:" ++ toString hist.length, "prod:" ++ toString prods.length,
    "spurious:" ++ b01 (labelStrs.any (fun x => x.startsWith "S")) ]
    ++ (if anon then ["srv:1", "burst:" ++ get kv "burst"] else [])
  let diff := if !parsedAll then "unparsed-label"
    else match rej with
      | some i => "label-rejected:" ++ toString i ++ ":" ++ labelStrs.getD i "?"
      | none => if !aHist then "history"
        else if !aLeft then "left:model=" ++ ",".intercalate (s.queue.map itemStr)
        else if !aBlocked then "blocked" else "-"
  let all := aHist && aLeft && aBlocked && extra.1
  let diff := if diff == "-" && !extra.1 then extra.2.2 else diff
  "res id=" ++ get kv "id" ++ " agree=" ++ b01 all ++ " skip=0"
    ++ " aC07=" ++ b01 all ++ " aC17=" ++ b01 all
    ++ " C07=" ++ b01 c07 ++ " C17=" ++ b01 c17
    ++ " tags=" ++ ",".intercalate (tags ++ extra.2.1) ++ " diff=" ++ diff

def run (kv : KV) : String := runWith kv (true, [], "-")

end TH.QueueCase
