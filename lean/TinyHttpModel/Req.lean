/-
  Req.lean — M6: life-cycle of one `Request` object (request.rs:305-498) as a typestate machine,
  and the connection thread's read-ahead view (what it can parse while nothing is answered).
-/
import TinyHttpModel.Conn

namespace TH.Req

/-- what the application can do with a request; Rust ownership makes `respond`, `intoWriter`,
    `upgrade` and `drop` consume it. -/
inductive Op where
  | asReader
  | respond (status : Nat)
  | intoWriter
  | upgrade (status : Nat)
  | drop                      -- also: the handler panics while holding the request
deriving DecidableEq, Repr, Inhabited

/-- what goes to the connection's writer as a consequence -/
inductive Emit where
  | interim100
  | final (status : Nat)      -- a complete response produced by the library
  | rawWriter                 -- the application got the raw writer: what it writes is its response
deriving DecidableEq, Repr, Inhabited

structure RState where
  alive : Bool := true            -- the `Request` object still exists
  writerSlot : Bool := true       -- `response_writer.is_some()`
  mustContinue : Bool             -- `must_send_continue`
  emitted : List Emit := []
deriving DecidableEq, Repr, Inhabited

def step (s : RState) : Op → Option RState
  | .asReader =>
    if !s.alive then none
    else if s.mustContinue then some { s with mustContinue := false, emitted := s.emitted ++ [.interim100] }
    else some s
  | .respond st =>
    -- respond_impl takes the writer; then `self` is dropped with an empty slot: Drop does nothing
    if s.alive && s.writerSlot then some { s with alive := false, writerSlot := false, emitted := s.emitted ++ [.final st] } else none
  | .intoWriter =>
    if s.alive && s.writerSlot then some { s with alive := false, writerSlot := false, emitted := s.emitted ++ [.rawWriter] } else none
  | .upgrade st =>
    if s.alive && s.writerSlot then some { s with alive := false, writerSlot := false, emitted := s.emitted ++ [.final st] } else none
  | .drop =>
    -- `Drop for Request`: a 500 iff the slot is still occupied
    if !s.alive then none
    else if s.writerSlot then some { s with alive := false, writerSlot := false, emitted := s.emitted ++ [.final 500] }
    else some { s with alive := false }

def run : RState → List Op → Option RState
  | s, [] => some s
  | s, o :: os =>
    match step s o with
    | some s' => run s' os
    | none => none

def isFinal : Emit → Bool
  | .interim100 => false
  | _ => true

/-! ### read-ahead: the connection thread alone, nothing answered, nothing read, nothing dropped -/

inductive AheadEnd where
  | blockedOnBody      -- the socket reader is held by a delivered request's streamed body
  | waitingForClient
  | closed
deriving DecidableEq, Repr, Inhabited

/-- requests that become available to the application while none has been handled. -/
def aheadLoop : Nat → Bytes → EndState → List Head × AheadEnd
  | 0, _, _ => ([], .waitingForClient)
  | fuel + 1, bs, fin =>
    match readHead bs fin with
    | .error (.stop .pending) => ([], .waitingForClient)
    | .error _ => ([], .closed)
    | .ok (h, rest) =>
      match framingFor h.version h.headers with
      | .error _ => ([], .closed)
      | .ok fr =>
        if (⟨Extracted.maxVersion.1, Extracted.maxVersion.2⟩ : Version).lt h.version then ([], .blockedOnBody)   -- 505 path: not followed here
        else
          let last := isLastRequest h.version h.headers
          match fr.kind with
          | .empty =>
            if last then ([h], .closed)
            else let (hs, e) := aheadLoop fuel rest fin; (h :: hs, e)
          | .buffered n =>
            if rest.length < n then ([], if fin == .open then .waitingForClient else .closed)
            else if last then ([h], .closed)
            else let (hs, e) := aheadLoop fuel (rest.drop n) fin; (h :: hs, e)
          | _ => ([h], .blockedOnBody)    -- limited / chunked / upgrade: the reader travels with the request

end TH.Req
