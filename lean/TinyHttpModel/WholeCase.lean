/-
  WholeCase.lean — trace acceptance of whole-server runs against `Lts.Whole` (pool × queue ×
  connections).  The label stream comes from the controlled run's event log (harness:
  `ctl_srvq::whole_labels`):
      A:n | A:q<w|->      the accept thread dispatches the next connection (new worker / queued)
      R<k>:<v>            request v of connection k has been written by its client
      C<k>                connection k's client closed
      P<w>:<t|->          worker w queued a request (notify_one woke receiver t)
      pB<w> pL<w> pT<w>   pool: worker begins / runs one locked block / its timed wait expired
      qc<t>:<call> qL<t> qT<t> qU:<t|->   queue: receiver calls / locked block / timeout / unblock
      +<ns>               virtual time passes (both clocks)
  The end of a connection's task is not visible from outside; it is supplied (`done w`) before the
  worker's next locked block.  Unlike the queue-only replay, pushes carry their values here: the
  composed model knows which request a worker is about to queue.
-/
import TinyHttpModel.Proto
import TinyHttpModel.Lts.Whole
import TinyHttpModel.QueueCase

namespace TH.WholeCase
open TH.Proto TH.Lts.Whole

def optTid (s : String) : Option (Option Nat) :=
  if s == "-" then some none else (toNat? s).map some

def labelsOf (s : String) : Option (List Label) :=
  match s.toList with
  | '+' :: r => (natOfChars r 0).map (fun d => [.pool (.tick d), .queue (.tick d)])
  | 'A' :: ':' :: 'n' :: [] => some [.accept .newThread]
  | 'A' :: ':' :: 'q' :: r => (optTid (String.ofList r)).map (fun w => [.accept (.queued w)])
  | 'R' :: r =>
    (match splitC ':' r with
     | [k, v] => (match natOfChars k 0, natOfChars v 0 with
        | some k, some v => some [.arrive k v]
        | _, _ => none)
     | _ => none)
  | 'C' :: r => (natOfChars r 0).map (fun k => [.close k])
  | 'P' :: r =>
    (match splitC ':' r with
     | [w, t] => (match natOfChars w 0, optTid (String.ofList t) with
        | some w, some t => some [.push w t]
        | _, _ => none)
     | _ => none)
  | 'p' :: 'B' :: r => (natOfChars r 0).map (fun w => [.pool (.begin w)])
  | 'p' :: 'L' :: r => (natOfChars r 0).map (fun w => [.pool (.look w)])
  | 'p' :: 'T' :: r => (natOfChars r 0).map (fun w => [.pool (.wake w true)])
  | 'p' :: 'W' :: r => (natOfChars r 0).map (fun w => [.pool (.wake w false)])
  | 'q' :: r => (QueueCase.labelOf (String.ofList r)).map (fun l => [.queue l])
  | _ => none

/-- one label, with the invisible task end supplied before a worker's locked block -/
def stepAuto (s : State) (l : Label) : Option State :=
  match l with
  | .pool (.look w) =>
    let s0 := match taskOf s w with
      | some _ => (step s (.done w)).getD s
      | none => s
    step s0 l
  | _ => step s l

def runIdx : State → List (List Label) → Nat → State × Option Nat
  | s, [], _ => (s, none)
  | s, ls :: rest, i =>
    let r := ls.foldl (fun (acc : Option State) l => acc.bind (fun st => stepAuto st l)) (some s)
    match r with
    | some s' => runIdx s' rest (i + 1)
    | none => (s, some i)

structure Verdict where
  accepted : Bool
  rejectedAt : Option Nat
  histOk : Bool
  liveOk : Bool
  final : State

def judge (labels : List String) (hist : List (List QueueCase.HRec)) (liveEnd : Nat) : Verdict :=
  let parsed := labels.map labelsOf
  let ok := parsed.all (·.isSome)
  let (s, rej) := runIdx {} (parsed.filterMap id) 0
  let mh := (List.range hist.length).map (QueueCase.modelHist s.queue)
  ⟨ok && rej.isNone, rej, mh == hist, Lts.Pool.count s.pool Lts.Pool.isLive == liveEnd, s⟩

/-- `queue` lines that carry a `whole=` label stream: the queue-only replay, and on top of it the
    whole-server replay. -/
def run (kv : KV) : String :=
  if !has kv "whole" then QueueCase.run kv else
  let hist : List (List QueueCase.HRec) := (splitS '|' (get kv "hist")).map (fun c => (listS ',' c).map QueueCase.hrecOf)
  let v := judge (listS ',' (get kv "whole")) hist (toNatD (get kv "live_end"))
  let ok := v.accepted && v.histOk && v.liveOk
  let why := if !v.accepted then "whole-label-rejected:" ++ (match v.rejectedAt with | some i => toString i | none => "unparsed")
    else if !v.histOk then "whole-history" else if !v.liveOk then "whole-live" else "-"
  QueueCase.runWith kv (ok, ["whole:1"], why)

end TH.WholeCase
