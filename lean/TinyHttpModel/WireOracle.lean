/-
  WireOracle.lean — the same connection semantics as Wire.lean / Conn.lean, but *operationally*:
  every byte comes out of a socket-like source whose successive reads return an oracle-chosen
  number of bytes (between 1 and what was asked for and is available).  TCP segmentation, pauses
  between segments and the 1 KiB `BufReader` in front of the socket are all instances of such an
  oracle.  `Props/C13.lean` proves that the oracle is irrelevant: `Conn.runO` equals `Conn.run`.

  The consumers are written as the Rust code is: the line reader pulls one byte at a time and
  carries the CR state (client.rs:80-102), the small-body loop reads until full tolerating short
  reads (request.rs:197-211), `EqualReader` / the chunk decoder hand out whatever the inner read
  returned (equal_reader.rs:41-59, chunked_transfer decoder), the discard loops read until done.
-/
import TinyHttpModel.Conn

namespace TH

structure OSrc where
  bytes : Bytes
  fin : EndState
  orc : List Nat          -- read sizes proposed by the network, one per read (missing = as much as asked)
deriving Repr, Inhabited

/-- One read of at most `want ≥ 1` bytes from the socket. -/
def OSrc.read (s : OSrc) (want : Nat) : ReadOut × OSrc :=
  match s.bytes with
  | [] =>
    (match s.fin.stop with
     | .eof => (.eof, { s with orc := s.orc.tail })
     | .reset => (.err, { s with orc := s.orc.tail })
     | .pending => (.pending, { s with orc := s.orc.tail }))
  | _ =>
    let hi := min want s.bytes.length
    let k := max 1 (min (s.orc.headD hi) hi)
    (.data (s.bytes.take k), { s with bytes := s.bytes.drop k, orc := s.orc.tail })

/-! ### line reader: one byte per read, CR state carried across reads -/

inductive LineResO where
  | line (l : Bytes) (s : OSrc)
  | notAscii (s : OSrc)
  | stop (st : Stop) (s : OSrc)
deriving Repr

/-- `read_next_line`: `acc` is the buffer so far (reversed), `prevCR` the carried flag. -/
def readLineLoop : Nat → OSrc → Bytes → Bool → LineResO
  | 0, s, _, _ => .stop .pending s
  | fuel + 1, s, acc, prevCR =>
    match s.read 1 with
    | (.data [b], s') =>
      if b = 10 ∧ prevCR then
        let l := (acc.drop 1).reverse          -- `buf.pop()` removes the CR
        if isAscii l then .line l s' else .notAscii s'
      else readLineLoop fuel s' (b :: acc) (b == 13)
    | (.data _, s') => .stop .pending s'         -- unreachable: a 1-byte read returns 1 byte
    | (.eof, s') => .stop .eof s'
    | (.err, s') => .stop .reset s'
    | (.pending, s') => .stop .pending s'

def readLineO (s : OSrc) : LineResO := readLineLoop (s.bytes.length + 1) s [] false

def readHeadersO : Nat → Version → OSrc → Except HeadErr (List Header) × OSrc
  | 0, _, s => (.error (.stop .pending), s)
  | fuel + 1, ver, s =>
    match readLineO s with
    | .stop st s' => (.error (.stop st), s')
    | .notAscii s' => (.error .notAscii, s')
    | .line l s' =>
      if l.isEmpty then (.ok [], s')
      else match parseHeaderLine l with
        | none => (.error (.wrongHeader ver), s')
        | some h =>
          match readHeadersO fuel ver s' with
          | (.ok hs, s'') => (.ok (h :: hs), s'')
          | (.error e, s'') => (.error e, s'')

def readHeadO (s : OSrc) : Except HeadErr Head × OSrc :=
  match readLineO s with
  | .stop st s' => (.error (.stop st), s')
  | .notAscii s' => (.error .notAscii, s')
  | .line l s' =>
    match parseRequestLine l with
    | none => (.error .wrongRequestLine, s')
    | some (m, p, v) =>
      match readHeadersO (s'.bytes.length + 1) v s' with
      | (.ok hs, s'') => (.ok ⟨m, p, v, hs⟩, s'')
      | (.error e, s'') => (.error e, s'')

/-! ### small bodies: read until full, tolerating short reads -/

/-- the loop of request.rs:200-211; `none` = EOF / error / blocked before `n` bytes arrived. -/
def readExactO : Nat → OSrc → Nat → Bytes → Option Bytes × OSrc
  | 0, s, _, _ => (none, s)
  | fuel + 1, s, n, acc =>
    if n = 0 then (some acc, s)
    else match s.read n with
      | (.data d, s') => readExactO fuel s' (n - d.length) (acc ++ d)
      | (_, s') => (none, s')

/-! ### streamed bodies: one application read on top of one (or a few) socket reads -/

/-- chunk-size line etc. are read byte by byte (decoder `bytes().next()`): pull up to `n` bytes
    one at a time. -/
def pullBytes : Nat → OSrc → Bytes → Bytes × OSrc
  | 0, s, acc => (acc, s)
  | n + 1, s, acc =>
    match s.read 1 with
    | (.data d, s') => pullBytes n s' (acc ++ d)
    | (_, s') => (acc, s')

/-- One application `read(want)` on the body reader, over the oracle source.  The parsing of
    chunk-size lines and CRLFs consumes bytes one at a time; to keep the two semantics aligned we
    parse them with the flat functions on the bytes and advance the source byte-wise by the same
    amount (`advance`), which is what `bytes().next()` loops do. -/
def advance (s : OSrc) (rest : Bytes) : OSrc :=
  (pullBytes (s.bytes.length - rest.length) s []).2

def Body.readO (b : Body) (want : Nat) (s : OSrc) : ReadOut × Body × OSrc :=
  match b with
  | .done => (.eof, .done, s)
  | .failed => (.err, .failed, s)
  | .cursor d =>
    if d.isEmpty then (.eof, .cursor [], s) else (.data (d.take want), .cursor (d.drop want), s)
  | .raw =>
    (match s.read want with
     | (o, s') => (o, .raw, s'))
  | .limited rem =>
    if rem = 0 then (.eof, .done, s)
    else match s.read (min want rem) with
      | (.data d, s') => (.data d, .limited (rem - d.length), s')
      | (.eof, s') => (.eof, .done, s')
      | (.err, s') => (.err, .limited rem, s')
      | (.pending, s') => (.pending, .limited rem, s')
  | .chunked inChunk =>
    let start : Option (Nat × OSrc) ⊕ ReadOut × Body × OSrc :=
      match inChunk with
      | some c => .inl (some (c, s))
      | none =>
        match readChunkSize s.bytes s.fin with
        | .stop _ => .inr (.pending, .chunked none, s)
        | .bad r => .inr (.err, .failed, advance s r)
        | .ok 0 r =>
          (match expectCRLF r s.fin with
           | some (.ok r') => .inr (.eof, .done, advance s r')
           | some (.error _) => .inr (.pending, .chunked none, s)
           | none => .inr (.err, .failed, advance s r))
        | .ok c r => .inl (some (c, advance s r))
    match start with
    | .inr res => res
    | .inl none => (.err, .failed, s)
    | .inl (some (c, s1)) =>
      let ask := if want < c then want else c
      match s1.read ask with
      | (.data d, s2) =>
        if want < c then (.data d, .chunked (some (c - d.length)), s2)
        else if d.length = c then
          (match expectCRLF s2.bytes s2.fin with
           | some (.ok r'') => (.data d, .chunked none, advance s2 r'')
           | some (.error _) => (.pending, .chunked (some 0), s2)
           | none => (.err, .failed, s2))
        else (.data d, .chunked (some (c - d.length)), s2)
      | (.eof, s2) => (.eof, .done, s2)
      | (.err, s2) => (.err, .failed, s2)
      | (.pending, s2) => (.pending, .chunked (some c), s2)

def Body.readUpToO : Nat → Body → Nat → Nat → OSrc → Bytes × Option ReadOut × Body × OSrc
  | 0, b, _, _, s => ([], none, b, s)
  | fuel + 1, b, bufSize, total, s =>
    if total = 0 then ([], none, b, s)
    else match b.readO (min bufSize total) s with
      | (.data d, b', s') =>
        if d.isEmpty then ([], none, b', s')
        else
          let (more, o, b'', s'') := Body.readUpToO fuel b' bufSize (total - d.length) s'
          (d ++ more, o, b'', s'')
      | (o, b', s') => ([], some o, b', s')

/-- the discard loops (`EqualReader::drop` with its 4 KiB buffer, the chunked body's drop). -/
def Body.drainO : Nat → Body → OSrc → Option OSrc
  | 0, _, s => some s
  | fuel + 1, b, s =>
    match b with
    | .done | .cursor _ | .raw | .failed => some s
    | .limited rem =>
      if rem = 0 then some s
      else match s.read (min rem 4096) with
        | (.data d, s') => Body.drainO fuel (.limited (rem - d.length)) s'
        | (.pending, _) => none
        | (_, s') => some { s' with bytes := [] }
    | .chunked _ =>
      match b.readO 4096 s with
      | (.data _, b', s') => Body.drainO fuel b' s'
      | (.pending, _, _) => none
      | (_, _, s') => some s'

/-! ### the connection loop over the oracle source -/

def initialBodyO (k : BodyKind) (s : OSrc) : Option (Body × OSrc) :=
  match k with
  | .upgrade => some (.raw, s)
  | .empty => some (.done, s)
  | .buffered n =>
    (match readExactO (n + 1) s n [] with
     | (some d, s') => some (.cursor d, s')
     | (none, _) => none)
  | .limited n => some (.limited n, s)
  | .chunked => some (.chunked none, s)

def handleO (st : St) (h : Head) (fr : Framing) (last : Bool) (a : Action) (body : Body) (s : OSrc) :
    St × OSrc × Bool :=
  let st1 := if a.asReaderCalls > 0 && fr.expectContinue then
      st.emit 100 (printResp (Resp.empty 100) [] h.version h.headers true none) true
    else st
  let zr : Option (Body × OSrc) :=
    if a.asReaderCalls > 0 && a.zeroRead then
      (match body with
       | .limited _ | .chunked _ =>
         (match Body.drainO (s.bytes.length + 2) body s with
          | some s' => some (.done, s')
          | none => none)
       | _ => some (body, s))
    else some (body, s)
  let (body, s, zrBlocked) := match zr with
    | some (b', s') => (b', s', false)
    | none => (body, s, true)
  let (got, rend, body1, s1) :=
    if zrBlocked then ([], some ReadOut.pending, body, s)
    else if a.asReaderCalls > 0 && a.readTotal > 0 then
      Body.readUpToO (a.readTotal + 1) body (max a.bufSize 1) a.readTotal s
    else ([], none, body, s)
  let readEnd : ReadEnd := match rend with
    | none => .none
    | some .eof => .eof
    | some .err => .err
    | some .pending => .pending
    | some (.data _) => .none
  let d : Delivered := ⟨h.method, h.url, h.version, h.headers, fr.bodyLength, got, readEnd, last⟩
  let st2 := { st1 with delivered := st1.delivered ++ [d] }
  if readEnd == .pending then (st2, s1, true)
  else
    let isHead := h.method.isHead
    let st3 := match a.fin with
      | .respond r => st2.emit r.status (printResp r.toResp r.pieces h.version h.headers isHead none) true
      | .drop => st2.emit 500 (printResp (Resp.empty 500) [] h.version h.headers isHead none) true
      | .writer ops =>
        let b := wopsBytes ops
        let base := st2.out.length
        { st2 with out := st2.out ++ b, flushed := wopsFlushed ops base st2.flushed }
      | .upgrade proto r ops =>
        let s' := st2.emit r.status (printResp r.toResp r.pieces h.version h.headers false (some proto)) true
        let b := wopsBytes ops
        let base := s'.out.length
        { s' with out := s'.out ++ b, flushed := wopsFlushed ops base s'.flushed }
      | .respondFail r failAfter =>
        (match printRespFailing r h.version h.headers isHead failAfter with
         | some (bytes, ok) => st2.emit r.status (some bytes) ok
         | none => st2.emit r.status none false)
    match Body.drainO (s1.bytes.length + 2) body1 s1 with
    | some s2 => (st3, s2, false)
    | none => (st3, { s1 with bytes := [] }, true)

def runLoopO : Nat → Nat → St → OSrc → Script → Trace
  | 0, _, st, _, _ => st.finish .waiting
  | fuel + 1, idx, st, s, script =>
    match readHeadO s with
    | (.error .wrongRequestLine, _) => (st.emit 400 (some (printError 400 ⟨1, 1⟩ false)) false).finish .closed
    | (.error (.wrongHeader v), _) => (st.emit 400 (some (printError 400 v false)) false).finish .closed
    | (.error .notAscii, _) => st.finish .closed
    | (.error (.stop .pending), _) => st.finish .waiting
    | (.error (.stop _), _) => st.finish .closed
    | (.ok h, s0) =>
      match framingFor h.version h.headers with
      | .error .expectationFailed => (st.emit 417 (some (printError 417 h.version true)) false).finish .closed
      | .error _ => (st.emit 400 (some (printError 400 h.version false)) false).finish .closed
      | .ok fr =>
        match initialBodyO fr.kind s0 with
        | none => if s.fin == .open then st.finish .waiting else st.finish .closed
        | some (body, s1) =>
          if (⟨Extracted.maxVersion.1, Extracted.maxVersion.2⟩ : Version).lt h.version then
            let st' := st.emit 505 (some print505) true
            match Body.drainO (s1.bytes.length + 2) body s1 with
            | some s2 => runLoopO fuel idx st' s2 script
            | none => st'.finish .waiting
          else
            let last := isLastRequest h.version h.headers
            let (st', s2, blocked) := handleO st h fr last (script idx) body s1
            if blocked then st'.finish .waiting
            else if last then st'.finish .closed
            else runLoopO fuel (idx + 1) st' s2 script

/-- the whole connection over a source with read oracle `orc`. -/
def Conn.runO (bs : Bytes) (fin : EndState) (orc : List Nat) (script : Script) : Trace :=
  runLoopO (bs.length + 1) 0 {} ⟨bs, fin, orc⟩ script

end TH
