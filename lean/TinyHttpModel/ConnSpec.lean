/-
  ConnSpec.lean — the expected behaviour of a connection, written from the property texts
  (C02, C03, C06, C09, C10, C12, C16, C18), as a function of the generator's *intent* (the abstract
  requests it rendered) and the application script.  This is the oracle that is evaluated on the
  implementation's observations; it does not use the model of the parser.
-/
import TinyHttpModel.Conn
import TinyHttpModel.Client

namespace TH.Spec

/-- one element of the pipeline as the generator meant it. -/
structure IReq where
  cls : String            -- ok | e400 | e417 | e505 | silent | smug | ignored
  method : Bytes
  url : Bytes
  version : Version
  headers : List Header
  body : Bytes            -- the body the framing designates
  declared : Option Nat
  last : Bool
  expect100 : Bool
  upgrade : Bool
deriving Repr, Inhabited

/-- what the client must find on the wire, in order. -/
inductive Item where
  | msg (status : Nat) (body : Option Bytes) (isHead : Bool)   -- one message; `none` = any body
  | raw (bs : Bytes)                                            -- exactly these bytes
  | interim100
  /-- a response whose body reader failed: at most one response (possibly cut short, possibly
      nothing at all), and it is the last thing on this connection's wire -/
  | partialLast (status : Nat)
deriving Repr, Inhabited

structure Expectation where
  delivered : List (IReq × Action)
  items : List Item
  closed : Bool
deriving Repr, Inhabited

def bodySuppressed (isHead : Bool) (status : Nat) : Bool :=
  isHead || (100 ≤ status && status ≤ 199) || status == 204 || status == 304

def finishItems (isHead : Bool) : Finish → List Item
  | .respond r => [.msg r.status (some (if bodySuppressed isHead r.status then [] else r.pieces.flatten)) isHead]
  | .drop => [.msg 500 (some []) isHead]
  | .writer ops => [.raw (wopsBytes ops)]
  | .upgrade _ r ops => [.msg r.status none false, .raw (wopsBytes ops)]
  | .respondFail r n =>
    if r.pieces.flatten.length ≤ n then
      [.msg r.status (some (if bodySuppressed isHead r.status then [] else r.pieces.flatten)) isHead]
    else [.partialLast r.status]

/-- the nine methods of RFC 7231 / RFC 5789 and the variant each must map to. -/
def standardMethods : List (Bytes × Bytes) :=
  [(b!"GET", b!"Get"), (b!"HEAD", b!"Head"), (b!"POST", b!"Post"), (b!"PUT", b!"Put"), (b!"DELETE", b!"Delete"),
   (b!"CONNECT", b!"Connect"), (b!"OPTIONS", b!"Options"), (b!"TRACE", b!"Trace"), (b!"PATCH", b!"Patch")]

def methodKind (tok : Bytes) : Bytes :=
  match standardMethods.find? (·.1 == tok) with
  | some (_, k) => k
  | none => b!"NonStandard"

/-- C10/C12/C16/C06/C18: what must happen for a pipeline, element by element. -/
def expectConn (halfClose : Bool) : List IReq → Nat → Script → Expectation
  | [], _, _ => ⟨[], [], halfClose⟩
  | r :: rest, idx, script =>
    if r.cls == "ok" then
      let a := script idx
      let isHead := r.method == b!"HEAD"
      let pre := if r.expect100 && a.asReaderCalls > 0 then [Item.interim100] else []
      let here := pre ++ finishItems isHead a.fin
      if r.last then ⟨[(r, a)], here, true⟩
      else
        let e := expectConn halfClose rest (idx + 1) script
        ⟨(r, a) :: e.delivered, here ++ e.items, e.closed⟩
    else if r.cls == "e505" then
      let e := expectConn halfClose rest idx script
      ⟨e.delivered, .msg 505 none false :: e.items, e.closed⟩
    else if r.cls == "e400" || r.cls == "smug" then ⟨[], [.msg 400 (some []) false], true⟩
    else if r.cls == "e417" then ⟨[], [.msg 417 (some []) false], true⟩
    else ⟨[], [], true⟩      -- silent close (non-ASCII), or bytes after the last request

/-- walk the client-side byte stream along the expected items. -/
def matchWire : List Item → Bytes → Bool
  | [], w => w.isEmpty
  | .raw bs :: rest, w => startsWith w bs && matchWire rest (w.drop bs.length)
  | .interim100 :: rest, w =>
    (match Client.decode false w with
     | some (m, w') => m.status == 100 && matchWire rest w'
     | none => false)
  | .partialLast st :: _, w =>
    -- nothing, or one (possibly truncated) response with that status and no second status line
    w.isEmpty ||
      ((match Client.splitLine w with
        | some (sl, _) => (match Client.parseStatusLine sl with
            | some (_, s) => s == st
            | none => false)
        | none => false)
       && !containsSub (w.drop 5) b!"HTTP/1.")
  | .msg st body isHead :: rest, w =>
    (match Client.decode isHead w with
     | some (m, w') =>
       m.status == st && m.kind != .untilClose
         && (match body with | some b => m.body == b | none => true)
         && matchWire rest w'
     | none => false)

/-- an observed delivered request (either side). -/
structure Obs where
  method : Bytes
  mkind : Bytes
  url : Bytes
  version : Version
  headers : List Header
  bodyLength : Option Nat
  bodyRead : Bytes
  readEnd : String
  addr : String
deriving Repr, Inhabited, BEq

def headOk (r : IReq) (o : Obs) : Bool :=
  o.method == r.method && o.mkind == methodKind r.method && o.url == r.url && o.version == r.version
    && o.headers == r.headers && o.bodyLength == r.declared

/-- is the body of this request streamed from the socket (as opposed to absent or buffered)? -/
def streamedBody (r : IReq) : Bool :=
  !r.upgrade && (match r.declared with
    | some n => decide (1024 < n) || (r.expect100 && decide (0 < n))
    | none => r.headers.any (·.is b!"Transfer-Encoding"))

def bodyOk (r : IReq) (a : Action) (o : Obs) : Bool :=
  if a.asReaderCalls == 0 || a.readTotal == 0 then o.bodyRead.isEmpty && o.readEnd == "none"
  else if a.zeroRead && streamedBody r then
    -- a read with an empty buffer ends a streamed body for the application (documented quirk of
    -- the EOF fuse; C03's quantifier starts at 1-byte reads): nothing more is readable
    o.bodyRead.isEmpty && o.readEnd == "eof"
  else o.bodyRead == r.body.take a.readTotal
        && o.readEnd == (if r.body.length < a.readTotal then "eof" else "none")

def zipAll {α β} (f : α → β → Bool) : List α → List β → Bool
  | [], [] => true
  | a :: as, b :: bs => f a b && zipAll f as bs
  | _, _ => false

structure Verdict where
  heads : Bool
  bodies : Bool
  seq : Bool
  wire : Bool
  eof : Bool
  addr : Bool
deriving Repr

def judge (e : Expectation) (unix : Bool) (obs : List Obs) (wire : Bytes) (eof : Bool) : Verdict :=
  { heads := zipAll (fun (ra : IReq × Action) o => headOk ra.1 o) e.delivered obs,
    bodies := zipAll (fun (ra : IReq × Action) o => bodyOk ra.1 ra.2 o) e.delivered obs,
    seq := (e.delivered.map (·.1.url)) == obs.map (·.url),
    wire := matchWire e.items wire,
    eof := eof == e.closed,
    addr := obs.all (fun o => o.addr == (if unix then "none" else "tcp")) }

end TH.Spec
