/-
  RespSpec.lean — declarative specifications written from the property texts of C04, C05, C19
  (not from the code), plus the decidable predicates ("oracles") that the checks evaluate on
  the implementation's actual output.
-/
import TinyHttpModel.Resp
import TinyHttpModel.Client

namespace TH.Spec

/-! ### C05 -/

/-- codings the TE header names that are supported and have q > 0, in header order. -/
def admissible : List (Bytes × Q) → List (Coding × Q)
  | [] => []
  | (n, q) :: rest =>
    if q.pos then
      match codingOfName n with
      | some c => (c, q) :: admissible rest
      | none => admissible rest
    else admissible rest

/-- the earliest element among those of greatest q. -/
def bestOf : List (Coding × Q) → Option (Coding × Q)
  | [] => none
  | x :: xs =>
    match bestOf xs with
    | none => some x
    | some y => if y.2.gt x.2 then some y else some x

/-- C05, first two sentences, as a function.  `te` is the parsed TE header (`[]` if absent). -/
def choice (ver : Version) (status : Nat) (te : List (Bytes × Q)) (len : Option Nat) (thr : Nat) :
    Coding :=
  if ver.le ⟨1, 0⟩ ∨ (100 ≤ status ∧ status ≤ 199) ∨ status = 204 then .identity
  else match bestOf (admissible te) with
    | some (c, _) => c
    | none =>
      match len with
      | none => .chunked
      | some l => if thr ≤ l then .chunked else .identity

/-- the TE header as a parsed list; `none` = unmodelled q. -/
def teList (reqHeaders : List Header) : Option (List (Bytes × Q)) :=
  match findHeader reqHeaders b!"TE" with
  | none => some []
  | some h => parseHeaderValue h.value

/-- what the framing headers of an output say. -/
inductive Framed where
  | identity (len : Bytes)   -- exactly one Content-Length, no Transfer-Encoding
  | chunked                  -- Transfer-Encoding: chunked, no Content-Length
  | neither
  | other
deriving DecidableEq, Repr

def countName (hs : List Header) (n : Bytes) : Nat := (hs.filter (·.is n)).length

def framedOf (hs : List Header) : Framed :=
  let cl := hs.filter (·.is b!"Content-Length")
  let te := hs.filter (·.is b!"Transfer-Encoding")
  match cl, te with
  | [c], [] => .identity c.value
  | [], [t] => if t.value == b!"chunked" then .chunked else .other
  | [], [] => .neither
  | _, _ => .other

/-- C05 oracle on an output header list. -/
def c05Holds (ver : Version) (status : Nat) (te : List (Bytes × Q)) (declared : Option Nat)
    (thr : Nat) (bodyLen : Nat) (upgrade : Bool) (outHdrs : List Header) : Bool :=
  if upgrade then framedOf outHdrs == .neither
  else match choice ver status te declared thr with
    | .chunked => framedOf outHdrs == .chunked
    | .identity => framedOf outHdrs == .identity (toDec (declared.getD bodyLen))

/-! ### C19 -/

def isProtectedName (h : Header) : Bool :=
  h.is b!"Connection" || h.is b!"Trailer" || h.is b!"Transfer-Encoding" || h.is b!"Upgrade"

/-- the value of the last `Content-Type` among `hs`, if any. -/
def lastContentType : List Header → Option Bytes
  | [] => none
  | h :: hs =>
    match lastContentType hs with
    | some v => some v
    | none => if h.is b!"Content-Type" then some h.value else none

/-- keep the first `Content-Type` (with value `v`), drop the later ones. -/
def keepFirstCT (v : Bytes) : List Header → List Header
  | [] => []
  | h :: hs =>
    if h.is b!"Content-Type" then { h with value := v } :: hs.filter (fun x => !x.is b!"Content-Type")
    else h :: keepFirstCT v hs

/-- C19, first sentence: what is sent of the headers the application supplied, in order. -/
def policy (supplied : List Header) : List Header :=
  let kept := supplied.filter (fun h => !isProtectedName h && !h.is b!"Content-Length")
  match lastContentType kept with
  | some v => keepFirstCT v kept
  | none => kept

/-- C19: a supplied parsable Content-Length sets the declared length (last one wins). -/
def declaredLen (init : Option Nat) : List Header → Option Nat
  | [] => init
  | h :: hs =>
    if h.is b!"Content-Length" && !isProtectedName h then
      match usizeFromStr h.value with
      | some n => declaredLen (some n) hs
      | none => declaredLen init hs
    else declaredLen init hs

def isAutoFraming (h : Header) : Bool := h.is b!"Content-Length" || h.is b!"Transfer-Encoding"

/-- C19 oracle on an output header list: the output minus the library's own headers
    (Connection/Upgrade of an upgrade, automatic Server/Date, the final framing header) is
    exactly `policy supplied`; exactly one Date and one Server. -/
def c19Holds (supplied : List Header) (upgrade : Bool) (outHdrs : List Header) : Bool :=
  let pol := policy supplied
  let hasDate := pol.any (·.is b!"Date")
  let hasServer := pol.any (·.is b!"Server")
  -- strip the library's leading headers
  let r := outHdrs
  let r := if upgrade then r.drop 2 else r
  let okUp := !upgrade ||
    (match outHdrs with
     | c :: u :: _ => c.is b!"Connection" && u.is b!"Upgrade"
     | _ => false)
  let (okServer, r) := if hasServer then (true, r) else
    match r with
    | s :: r' => (s.is b!"Server", r')
    | [] => (false, [])
  let (okDate, r) := if hasDate then (true, r) else
    match r with
    | d :: r' => (d.is b!"Date", r')
    | [] => (false, [])
  -- strip the library's trailing framing header
  let body := match r.reverse with
    | f :: rr => if isAutoFraming f then rr.reverse else r
    | [] => r
  okUp && okServer && okDate && body == pol
    && (hasDate || countName outHdrs b!"Date" == 1)
    && (hasServer || countName outHdrs b!"Server" == 1)

/-! ### IMF-fixdate syntax (C19: "a valid HTTP-date") -/

def dayNames : List Bytes := [b!"Mon", b!"Tue", b!"Wed", b!"Thu", b!"Fri", b!"Sat", b!"Sun"]
def monthNames : List Bytes :=
  [b!"Jan", b!"Feb", b!"Mar", b!"Apr", b!"May", b!"Jun", b!"Jul", b!"Aug", b!"Sep", b!"Oct", b!"Nov", b!"Dec"]

def twoDigits (a b : Nat) : Option Nat :=
  if isDigit a && isDigit b then some ((a - 48) * 10 + (b - 48)) else none

/-- `Sun, 06 Nov 1994 08:49:37 GMT` -/
def isImfFixdate (d : Bytes) : Bool :=
  match d with
  | [w1, w2, w3, 44, 32, d1, d2, 32, m1, m2, m3, 32, y1, y2, y3, y4, 32, h1, h2, 58, i1, i2, 58, s1, s2,
      32, 71, 77, 84] =>
    dayNames.contains [w1, w2, w3] && monthNames.contains [m1, m2, m3]
      && (match twoDigits d1 d2 with | some x => decide (1 ≤ x ∧ x ≤ 31) | none => false)
      && isDigit y1 && isDigit y2 && isDigit y3 && isDigit y4
      && (match twoDigits h1 h2 with | some x => decide (x ≤ 23) | none => false)
      && (match twoDigits i1 i2 with | some x => decide (x ≤ 59) | none => false)
      && (match twoDigits s1 s2 with | some x => decide (x ≤ 60) | none => false)
  | _ => false

/-! ### C04 -/

/-- RFC 7230 §4.1 chunked coding of `body` with chunks of `chunkSize` bytes (the last one
    shorter), followed by the terminal chunk.  `fuel` ≥ number of chunks. -/
def enchunkAux : Nat → Bytes → Bytes
  | 0, _ => []
  | fuel + 1, body =>
    if body.isEmpty then []
    else chunkFrame (body.take chunkSize) ++ enchunkAux fuel (body.drop chunkSize)

def enchunk (body : Bytes) : Bytes := enchunkAux (body.length + 1) body ++ b!"0\r\n\r\n"

/-- what the application may hand in: header names are non-empty and free of `:` CR LF,
    values free of CR LF; a declared length equals the body length. -/
def wfHeader (h : Header) : Bool :=
  !h.name.isEmpty && !h.name.contains 58 && !h.name.contains 10 && !h.name.contains 13
    && !h.value.contains 10 && !h.value.contains 13

def wfResp (r : Resp) (bodyLen : Nat) : Bool :=
  r.headers.all wfHeader && r.headers.all (fun h => !isAutoFraming h)
    && (match r.dataLength with | some n => n == bodyLen | none => true)

/-- C04 oracle on output bytes: an independent client recovers status and exactly the body,
    consumes the whole message, and does not rely on connection close. -/
def c04Holds (reqIsHead : Bool) (status : Nat) (body : Bytes) (out : Bytes) : Bool :=
  match Client.decode reqIsHead out with
  | none => false
  | some (m, rest) =>
    rest.isEmpty && m.status == status && m.kind != .untilClose
      && m.body == (if Client.noBodyFor reqIsHead status then [] else body)

end TH.Spec
