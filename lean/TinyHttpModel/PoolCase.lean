/-
  PoolCase.lean — `pool` cases: trace acceptance of the controlled run of the real `TaskPool`
  against `Lts.Pool`, and the C08 / C20 predicates on the implementation's observations.
-/
import TinyHttpModel.Proto
import TinyHttpModel.Lts.Pool

namespace TH.PoolCase
open TH.Proto TH.Lts.Pool

inductive Ev where
  | lbl (l : Label)
  | started (task worker : Nat)      -- observation: the implementation started `task` on `worker`

def optTid (s : String) : Option (Option Nat) :=
  if s == "-" then some none else (toNat? s).map some

def evOf (s : String) : Option Ev :=
  match s.toList with
  | '+' :: r => (natOfChars r 0).map (fun d => .lbl (.tick d))
  | 'B' :: r => (natOfChars r 0).map (fun w => .lbl (.begin w))
  | 'F' :: r => (natOfChars r 0).map (fun w => .lbl (.finish w))
  | 'L' :: r => (natOfChars r 0).map (fun w => .lbl (.look w))
  | 'T' :: r => (natOfChars r 0).map (fun w => .lbl (.wake w true))
  | 'W' :: r => (natOfChars r 0).map (fun w => .lbl (.wake w false))
  | ['X'] => some (.lbl .dropPool)
  | 'D' :: r =>
    (match splitC ':' r with
     | [k, b] =>
       (match natOfChars k 0, b with
        | some k, ['n'] => some (.lbl (.dispatch k .newThread))
        | some k, 'q' :: w => (optTid (String.ofList w)).map (fun w => .lbl (.dispatch k (.queued w)))
        | _, _ => none)
     | _ => none)
  | 'S' :: r =>
    (match splitC ':' r with
     | [k, w] => (match natOfChars k 0, natOfChars w 0 with
        | some k, some w => some (.started k w)
        | _, _ => none)
     | _ => none)
  | _ => none

/-- replay; a `started` observation (the task's first instruction runs on worker `w`) must be one of
    the starts the model has made and that has not been observed yet: between a worker taking the
    task (a locked block, or the thread's creation) and the task's first instruction other workers
    may run, so the observations need not come in the order of the model's steps. -/
def runIdx : State → List Ev → Nat → List (Nat × Nat) → State × Option Nat
  | s, [], _, _ => (s, none)
  | s, .lbl l :: es, i, seen =>
    (match step s l with
     | some s' => runIdx s' es (i + 1) seen
     | none => (s, some i))
  | s, .started k w :: es, i, seen =>
    if s.started.contains (k, w) && !seen.contains (k, w) then runIdx s es (i + 1) ((k, w) :: seen) else (s, some i)

/-- whole-server runs: the end of a connection's task is not visible from outside; it is supplied
    before the worker's next locked block. -/
def runIdxAnon : State → List Ev → Nat → State × Option Nat
  | s, [], _ => (s, none)
  | s, .lbl (.look w) :: es, i =>
    let s0 := match phaseOf s w with
      | .running _ => (step s (.finish w)).getD s
      | _ => s
    (match step s0 (.look w) with
     | some s' => runIdxAnon s' es (i + 1)
     | none => (s, some i))
  | s, .lbl l :: es, i =>
    (match step s l with
     | some s' => runIdxAnon s' es (i + 1)
     | none => (s, some i))
  | s, .started _ _ :: es, i => runIdxAnon s es (i + 1)

def runAnon (kv : KV) : String :=
  let strs := listS ',' (get kv "labels")
  let evs := strs.filterMap evOf
  let parsedAll := evs.length == strs.length
  let (s, rej) := runIdxAnon init evs 0
  let accepted := parsedAll && rej.isNone
  let started := listS ',' (get kv "started")
  let liveEnd := toNatD (get kv "live_end")
  let aborted := get kv "aborted" == "1"
  let quiet := get kv "quiet" == "1"
  -- model vs implementation: how many workers are alive at the end
  let aLive := accepted && count s isLive == liveEnd
  -- C08: every connection that sent a complete request had it delivered, whatever the others did
  let c08 := started.all (· == "ok") && !aborted && quiet
  -- C20: after the long silence at the end of every scenario no surplus worker is left
  -- (workers still serving an open connection are busy, not surplus: the accepted trace tells which)
  let busy := count s (fun p => match p with | .running _ => true | _ => false)
  let c20 := decide (liveEnd ≤ minThreads + busy) && !aborted && quiet
  let tags := [
    "srvpool:1", "burst:" ++ get kv "burst",
    "newthread:" ++ b01 (strs.any (fun x => x.endsWith ":n")),
    "queued:" ++ b01 (strs.any (fun x => (x.splitOn ":q").length > 1)),
    "timeoutwake:" ++ b01 (strs.any (fun x => x.startsWith "T")),
    "ptimer:" ++ get kv "ptimer", "preempt:" ++ b01 (decide (0 < toNatD (get kv "preempt"))) ]
  let diff := if !parsedAll then "unparsed-label"
    else match rej with
      | some i => "label-rejected:" ++ toString i ++ ":" ++ strs.getD i "?"
      | none => if !aLive then "live:model=" ++ toString (count s isLive) else "-"
  "res id=" ++ get kv "id" ++ " agree=" ++ b01 aLive ++ " skip=0 aC08=" ++ b01 aLive ++ " aC20=" ++ b01 aLive
    ++ " C08=" ++ b01 c08 ++ " C20=" ++ b01 c20
    ++ " tags=" ++ ",".intercalate tags ++ " diff=" ++ diff

def run (kv : KV) : String :=
  if get kv "anon" == "1" then runAnon kv else
  let strs := listS ',' (get kv "labels")
  let evs := strs.filterMap evOf
  let parsedAll := evs.length == strs.length
  let (s, rej) := runIdx init evs 0 []
  let accepted := parsedAll && rej.isNone
  let started := listS ',' (get kv "started")
  let liveBurst := toNatD (get kv "live_burst")
  let liveIdle := toNatD (get kv "live_idle")
  let liveDropped := toNatD (get kv "live_dropped")
  let quiet := get kv "quiet"
  let aborted := get kv "aborted" == "1"
  -- model vs implementation: final number of live workers after the drop phase
  let aLive := accepted && count s isLive == liveDropped
  -- C08: every dispatched task had started while no task had ended and every gate was shut
  let c08 := started.all (· != "never") && !aborted
  -- C20 (pool part): back to at most MIN_THREADS when idle; nobody left after the pool is dropped
  -- under light traffic (one short task per second for 9 s) a surplus worker is idle for more than
  -- the idle period unless it was one of the few woken for those tasks: at the end at most
  -- MIN_THREADS + (tasks of the last idle period + 1) workers may be alive
  let trickle := toNatD (get kv "trickle")
  let trickleOk := trickle == 0 || decide (toNatD (get kv "live_trickle") ≤ minThreads + 7)
  let c20 := decide (liveIdle ≤ minThreads) && liveDropped == 0 && !aborted && trickleOk
    && (quiet.toList.drop 1 == ['1', '1'])
  let n := started.length
  let tags := [
    "tasks:" ++ (if n ≤ 4 then "le4" else if n == 5 then "5" else if n ≤ 16 then "6to16" else "gt16"),
    "newthread:" ++ b01 (strs.any (fun x => x.endsWith ":n")),
    "queued:" ++ b01 (strs.any (fun x => (x.splitOn ":q").length > 1)),
    "timeoutwake:" ++ b01 (strs.any (fun x => x.startsWith "T")),
    "spuriouswake:" ++ b01 (strs.any (fun x => x.startsWith "W")),
    "presettle:" ++ get kv "presettle",
    "burstlive:" ++ (if liveBurst ≤ 4 then "le4" else "gt4"),
    "ptimer:" ++ get kv "ptimer", "preempt:" ++ b01 (decide (0 < toNatD (get kv "preempt"))), "trickle:" ++ b01 (decide (0 < trickle)) ]
  let diff := if !parsedAll then "unparsed-label"
    else match rej with
      | some i => "label-rejected:" ++ toString i ++ ":" ++ strs.getD i "?"
      | none => if !aLive then "live:model=" ++ toString (count s isLive) else "-"
  "res id=" ++ get kv "id" ++ " agree=" ++ b01 aLive ++ " skip=0 aC08=" ++ b01 aLive ++ " aC20=" ++ b01 aLive
    ++ " C08=" ++ b01 c08 ++ " C20=" ++ b01 c20
    ++ " tags=" ++ ",".intercalate tags ++ " diff=" ++ diff

end TH.PoolCase
