/-
  Conn.lean — M1 (continued): the connection loop `ClientConnection::next` composed with a
  sequentialised application (`Script`), producing the observable trace of one connection.
  Mirrors client.rs:172-266, request.rs:305-498, lib.rs:360-375.
-/
import TinyHttpModel.Wire

namespace TH

/-- a response the application hands to `respond` / `upgrade`. -/
structure RespSpec where
  status : Nat
  headers : List Header
  declared : Option Nat
  threshold : Option Nat
  pieces : List Bytes
deriving Repr, Inhabited

def RespSpec.toResp (r : RespSpec) : Resp :=
  { Resp.new r.status r.headers r.declared with threshold := r.threshold }

inductive WOp where
  | write (bs : Bytes)
  | flush
deriving Repr, Inhabited

inductive Finish where
  | respond (r : RespSpec)
  | drop                                   -- also: a handler that panics while holding the request
  | writer (ops : List WOp)                -- into_writer, raw writes, drop the writer
  | upgrade (proto : Bytes) (r : RespSpec) (ops : List WOp)   -- upgrade, raw writes on the stream, drop it
  /-- `respond` with a body reader that returns an I/O error once `failAfter` bytes were produced -/
  | respondFail (r : RespSpec) (failAfter : Nat)
deriving Repr, Inhabited

/-- what the application does with one delivered request. -/
structure Action where
  asReaderCalls : Nat          -- number of `as_reader()` calls (0: never asks for the body)
  readTotal : Nat              -- total number of body bytes it tries to obtain (0: none)
  bufSize : Nat                -- size of the buffer it reads with (≥ 1)
  fin : Finish
  zeroRead : Bool := false     -- first performs one `read` with an empty buffer
deriving Repr, Inhabited

abbrev Script := Nat → Action

inductive ReadEnd where
  | none | eof | err | pending
deriving DecidableEq, Repr, Inhabited

structure Delivered where
  method : Method
  url : Bytes
  version : Version
  headers : List Header
  bodyLength : Option Nat
  bodyRead : Bytes
  readEnd : ReadEnd
  last : Bool                 -- the connection's persistence decision for this request
deriving Repr, Inhabited

inductive ConnEnd where
  | closed            -- the server ended the connection: everything flushed, write side closed
  | waiting           -- the connection thread (or the application) is blocked on the client
deriving DecidableEq, Repr, Inhabited

structure Trace where
  delivered : List Delivered
  out : Bytes                 -- every byte submitted towards the client, in order
  flushed : Nat               -- length of the prefix of `out` that is certainly on the wire
  ending : ConnEnd
  unmodelled : Bool           -- some response depended on an unmodelled q-value
  statuses : List Nat         -- status codes of the messages the server generated, in order
deriving Repr, Inhabited

def fixedDate : Bytes := b!"Thu, 01 Jan 1970 00:00:00 GMT"

/-- print a response the way `respond_impl` / the error paths do. -/
def printResp (r : Resp) (pieces : List Bytes) (ver : Version) (reqHeaders : List Header) (noBody : Bool)
    (upgrade : Option Bytes) : Option Bytes :=
  rawPrint r ⟨ver, reqHeaders, noBody, upgrade⟩ fixedDate pieces

/-- `Response::empty(code)` printed by the connection thread's error paths. -/
def printError (code : Nat) (ver : Version) (noBody : Bool) : Bytes :=
  (printResp (Resp.empty code) [] ver [] noBody none).getD []

def text505 : Bytes := b!"This server only supports HTTP versions 1.0 and 1.1"

def print505 : Bytes :=
  (printResp { Resp.fromString text505 with status := 505 } [text505] ⟨1, 1⟩ [] false none).getD []

/-- persistence decision (client.rs:241-260): is this the last request of the connection? -/
def isLastRequest (ver : Version) (hs : List Header) : Bool :=
  match findHeader hs b!"Connection" with
  | some h =>
    let v := lower h.value
    if containsSub v b!"close" then true
    else if containsSub v b!"upgrade" then true
    else if !containsSub v b!"keep-alive" && ver == ⟨1, 0⟩ then true
    else false
  | none => ver == ⟨1, 0⟩

def wopsBytes : List WOp → Bytes
  | [] => []
  | .write b :: r => b ++ wopsBytes r
  | .flush :: r => wopsBytes r

/-- number of bytes submitted up to and including the last flush. -/
def wopsFlushed : List WOp → Nat → Nat → Nat
  | [], _, mark => mark
  | .write b :: r, pos, mark => wopsFlushed r (pos + b.length) mark
  | .flush :: r, pos, _ => wopsFlushed r pos pos

/-- the first `n` bytes of a piece list, as pieces. -/
def takePieces : List Bytes → Nat → List Bytes
  | [], _ => []
  | p :: ps, n => if n = 0 then [] else if p.length ≤ n then p :: takePieces ps (n - p.length) else [p.take n]

/-- `respond` whose body reader fails after `failAfter` bytes (request.rs:443-460 with
    response.rs:380-451): what reaches the writer, and whether `respond` returned Ok.
    * body suppressed (HEAD, 1xx/204/304): the reader is never read — a normal response;
    * unknown length, identity: `read_to_end` fails before anything is written;
    * otherwise the head and the bytes copied before the error (chunked: flushed as chunks, with
      the terminal chunk the encoder writes when it is dropped).
    `none` = unmodelled q-value. -/
def printRespFailing (r : RespSpec) (ver : Version) (reqHeaders : List Header) (isHead : Bool) (failAfter : Nat) :
    Option (Bytes × Bool) :=
  let total := r.pieces.flatten.length
  if total ≤ failAfter then (printResp r.toResp r.pieces ver reqHeaders isHead none).map (·, true)
  else
    let resp := r.toResp
    let ctx : ReqCtx := ⟨ver, reqHeaders, isHead, none⟩
    match framing resp ctx total with
    | none => none
    | some (te, len) =>
      let suppress := isHead || Extracted.noBodyStatus resp.status
      match te, resp.dataLength with
      -- the whole body is buffered first (response.rs:383-388), even when it will not be sent
      | some .identity, none => some ([], false)
      | _, _ =>
        if suppress then (printResp resp r.pieces ver reqHeaders isHead none).map (·, true)
        else
          let before := takePieces r.pieces failAfter
          let hs := insertAuto resp.headers fixedDate none ++ framingHeader te len
          let head := messageHeader ver resp.status hs
          let body := match te, len with
            | some .chunked, _ => encodeChunked before
            | some .identity, some l => if 1 ≤ l then before.flatten else []
            | _, _ => []
          -- an identity body of declared length 0 is never copied: no read, no error
          let ok := match te, len with
            | some .identity, some l => decide (l = 0)
            | _, _ => false
          some (head ++ body, ok)

/-- A `read` with an empty buffer on a streamed body returns 0, which the EOF fuse takes for the end
    of the body: the reader is dropped on the spot (fused_reader.rs:23-35) and its unread remainder
    discarded; later reads return end-of-stream.  Buffered bodies, upgrades and empty bodies are
    not fused.  Returns the new reader state and stream, `none` if the discard blocks. -/
def zeroReadEffect (b : Body) (bs : Bytes) (fin : EndState) : Option (Body × Bytes) :=
  match b with
  | .limited _ | .chunked _ =>
    (match Body.drain (bs.length + 2) b bs fin with
     | some bs' => some (.done, bs')
     | none => none)
  | _ => some (b, bs)

structure St where
  delivered : List Delivered := []
  out : Bytes := []
  flushed : Nat := 0
  unmodelled : Bool := false
  statuses : List Nat := []
deriving Repr, Inhabited

def St.emit (s : St) (status : Nat) (bs : Option Bytes) (flush : Bool) : St :=
  let out := s.out ++ bs.getD []
  { s with out := out, flushed := if flush then out.length else s.flushed,
           unmodelled := s.unmodelled || bs.isNone, statuses := s.statuses ++ [status] }

def St.finish (s : St) (e : ConnEnd) : Trace :=
  ⟨s.delivered, s.out, (if e == .closed then s.out.length else s.flushed), e, s.unmodelled, s.statuses⟩

def initialBody (k : BodyKind) (bs : Bytes) : Body × Bytes :=
  match k with
  | .upgrade => (.raw, bs)
  | .empty => (.done, bs)
  | .buffered n => (.cursor (bs.take n), bs.drop n)
  | .limited n => (.limited n, bs)
  | .chunked => (.chunked none, bs)

/-- the application's handling of one delivered request; returns the new state, the remaining
    client bytes, and whether the handling blocked on the client. -/
def handle (s : St) (h : Head) (fr : Framing) (last : Bool) (a : Action) (body : Body) (bs : Bytes)
    (fin : EndState) : St × Bytes × Bool :=
  -- as_reader(): 100 Continue at the first call
  let s1 := if a.asReaderCalls > 0 && fr.expectContinue then
      s.emit 100 (printResp (Resp.empty 100) [] h.version h.headers true none) true
    else s
  -- an empty-buffer read first, if the script says so
  let zr : Option (Body × Bytes) :=
    if a.asReaderCalls > 0 && a.zeroRead then zeroReadEffect body bs fin else some (body, bs)
  let (body, bs, zrBlocked) := match zr with
    | some (b', bs') => (b', bs', false)
    | none => (body, bs, true)
  -- reads
  let (got, rend, body1, bs1) :=
    if zrBlocked then ([], some ReadOut.pending, body, bs)
    else if a.asReaderCalls > 0 && a.readTotal > 0 then
      Body.readUpTo (a.readTotal + 1) body (max a.bufSize 1) a.readTotal bs fin
    else ([], none, body, bs)
  let readEnd : ReadEnd := match rend with
    | none => .none
    | some .eof => .eof
    | some .err => .err
    | some .pending => .pending
    | some (.data _) => .none
  let d : Delivered := ⟨h.method, h.url, h.version, h.headers, fr.bodyLength, got, readEnd, last⟩
  let s2 := { s1 with delivered := s1.delivered ++ [d] }
  if readEnd == .pending then (s2, bs1, true)
  else
    let isHead := h.method.isHead
    let s3 := match a.fin with
      | .respond r => s2.emit r.status (printResp r.toResp r.pieces h.version h.headers isHead none) true
      | .drop => s2.emit 500 (printResp (Resp.empty 500) [] h.version h.headers isHead none) true
      | .writer ops =>
        let b := wopsBytes ops
        let base := s2.out.length
        { s2 with out := s2.out ++ b, flushed := wopsFlushed ops base s2.flushed }
      | .upgrade proto r ops =>
        let s' := s2.emit r.status (printResp r.toResp r.pieces h.version h.headers false (some proto)) true
        let b := wopsBytes ops
        let base := s'.out.length
        { s' with out := s'.out ++ b, flushed := wopsFlushed ops base s'.flushed }
      | .respondFail r failAfter =>
        (match printRespFailing r h.version h.headers isHead failAfter with
         | some (bytes, ok) => s2.emit r.status (some bytes) ok      -- flushed only if respond got to its flush
         | none => s2.emit r.status none false)
    -- the request (and with it the body reader) is dropped: the unread remainder is discarded
    match Body.drain (bs1.length + 2) body1 bs1 fin with
    | some bs2 => (s3, bs2, false)
    | none => (s3, [], true)

/-- `ClientConnection::next` iterated, with the application run in between. `fuel` ≥ number of heads. -/
def runLoop : Nat → Nat → St → Bytes → EndState → Script → Trace
  | 0, _, s, _, _, _ => s.finish .waiting
  | fuel + 1, idx, s, bs, fin, script =>
    match readHead bs fin with
    | .error .wrongRequestLine => (s.emit 400 (some (printError 400 ⟨1, 1⟩ false)) false).finish .closed
    | .error (.wrongHeader v) => (s.emit 400 (some (printError 400 v false)) false).finish .closed
    | .error .notAscii => s.finish .closed
    | .error (.stop .pending) => s.finish .waiting
    | .error (.stop _) => s.finish .closed
    | .ok (h, rest) =>
      -- `new_request`: the `upgrade` option is honoured only for the versions the server speaks
      -- (`framingFor`), so the body of a request refused below with 505 is always framed and skipped
      match framingFor h.version h.headers with
      | .error .expectationFailed => (s.emit 417 (some (printError 417 h.version true)) false).finish .closed
      | .error _ => (s.emit 400 (some (printError 400 h.version false)) false).finish .closed
      | .ok fr =>
        -- small bodies are read before the request exists
        let short := match fr.kind with
          | .buffered n => decide (rest.length < n)
          | _ => false
        if short then (if fin == .open then s.finish .waiting else s.finish .closed)
        else
          let (body, rest1) := initialBody fr.kind rest
          if (⟨Extracted.maxVersion.1, Extracted.maxVersion.2⟩ : Version).lt h.version then
            -- 505 on the rejected request's own writer, flushed; its body is discarded (F1 repair)
            let s' := s.emit 505 (some print505) true
            match Body.drain (rest1.length + 2) body rest1 fin with
            | some rest2 => runLoop fuel idx s' rest2 fin script
            | none => s'.finish .waiting
          else
            let last := isLastRequest h.version h.headers
            let (s', rest2, blocked) := handle s h fr last (script idx) body rest1 fin
            if blocked then s'.finish .waiting
            else if last then s'.finish .closed
            else runLoop fuel (idx + 1) s' rest2 fin script

/-- the whole connection. -/
def Conn.run (bs : Bytes) (fin : EndState) (script : Script) : Trace :=
  runLoop (bs.length + 1) 0 {} bs fin script

end TH
