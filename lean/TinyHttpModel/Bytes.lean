/-
  Bytes.lean — import-free helpers shared by every model.

  A byte is a `Nat` (the driver only ever feeds values < 256); byte strings are `List Nat`.
  Theorems quantify over all `List Nat`, which contains every byte string.
  Each helper mirrors one Rust `str`/slice operation used by tiny-http; the Rust name is
  given in the doc comment.
-/
namespace TH

abbrev Bytes := List Nat

/-- ASCII members of Unicode `White_Space` — what `str::trim` and `char::is_whitespace`
    see on an ASCII string: HT LF VT FF CR SP. -/
def isWs (b : Nat) : Bool := b == 9 || b == 10 || b == 11 || b == 12 || b == 13 || b == 32

/-- `str::trim_start`. -/
def trimStart : Bytes → Bytes
  | [] => []
  | b :: bs => if isWs b then trimStart bs else b :: bs

/-- `str::trim_end`. -/
def trimEnd : Bytes → Bytes
  | [] => []
  | b :: bs =>
    match trimEnd bs with
    | [] => if isWs b then [] else [b]
    | r => b :: r

/-- `str::trim`. -/
def trim (bs : Bytes) : Bytes := trimEnd (trimStart bs)

/-- `str::split(c)`: n separators give n+1 fields. -/
def splitOn (c : Nat) : Bytes → List Bytes
  | [] => [[]]
  | b :: bs =>
    if b = c then [] :: splitOn c bs
    else match splitOn c bs with
      | [] => [[b]]          -- unreachable: splitOn never returns []
      | f :: fs => (b :: f) :: fs

/-- `str::splitn(2, c)`: the text before the first `c`, and (if there is a `c`) the text after it. -/
def splitFirst (c : Nat) : Bytes → Bytes × Option Bytes
  | [] => ([], none)
  | b :: bs =>
    if b = c then ([], some bs)
    else let (f, r) := splitFirst c bs; (b :: f, r)

/-- `u8::to_ascii_lowercase`. -/
def lowerB (b : Nat) : Nat := if 65 ≤ b ∧ b ≤ 90 then b + 32 else b

/-- `str::to_ascii_lowercase`. -/
def lower (bs : Bytes) : Bytes := bs.map lowerB

/-- `str::eq_ignore_ascii_case`. -/
def eqIgnoreCase (a b : Bytes) : Bool := lower a == lower b

/-- `l` starts with `p`. -/
def startsWith : Bytes → Bytes → Bool
  | _, [] => true
  | [], _ :: _ => false
  | b :: bs, p :: ps => b == p && startsWith bs ps

/-- `str::contains(pat)`. -/
def containsSub : Bytes → Bytes → Bool
  | [], p => p.isEmpty
  | b :: bs, p => startsWith (b :: bs) p || containsSub bs p

/-- all bytes < 0x80 — `AsciiString::from_ascii` succeeds. -/
def isAscii (bs : Bytes) : Bool := bs.all (· < 128)

def isDigit (b : Nat) : Bool := 48 ≤ b && b ≤ 57

/-! ### decimal -/

/-- digits of `n`, most significant first, as numbers 0..9 (`fuel` ≥ number of digits). -/
def digitsAux (base : Nat) : Nat → Nat → List Nat → List Nat
  | 0, _, acc => acc
  | fuel + 1, n, acc =>
    if n < base then n :: acc else digitsAux base fuel (n / base) (n % base :: acc)

def digits (base n : Nat) : List Nat := digitsAux base (n + 1) n []

/-- `format!("{}", n)`. -/
def toDec (n : Nat) : Bytes := (digits 10 n).map (· + 48)

def decVal (b : Nat) : Option Nat := if 48 ≤ b ∧ b ≤ 57 then some (b - 48) else none

/-- value of a non-empty all-digit string, accumulating from the left. -/
def ofDecAux : Bytes → Nat → Option Nat
  | [], acc => some acc
  | b :: bs, acc =>
    match decVal b with
    | some d => ofDecAux bs (acc * 10 + d)
    | none => none

/-- strict `1*DIGIT`. -/
def ofDec (bs : Bytes) : Option Nat :=
  match bs with
  | [] => none
  | _ => ofDecAux bs 0

def usizeMax : Nat := 18446744073709551615

/-- `usize::from_str` on a 64-bit target: optional leading `+`, then `1*DIGIT`, value ≤ usize::MAX. -/
def usizeFromStr (bs : Bytes) : Option Nat :=
  let ds := match bs with
    | 43 :: r => r
    | r => r
  match ofDec ds with
  | some n => if n ≤ usizeMax then some n else none
  | none => none

/-! ### hexadecimal -/

def hexDigit (d : Nat) : Nat := if d < 10 then d + 48 else d + 87

/-- `format!("{:x}", n)`. -/
def toHex (n : Nat) : Bytes := (digits 16 n).map hexDigit

def hexVal (b : Nat) : Option Nat :=
  if 48 ≤ b ∧ b ≤ 57 then some (b - 48)
  else if 97 ≤ b ∧ b ≤ 102 then some (b - 87)
  else if 65 ≤ b ∧ b ≤ 70 then some (b - 55)
  else none

def ofHexAux : Bytes → Nat → Option Nat
  | [], acc => some acc
  | b :: bs, acc =>
    match hexVal b with
    | some d => ofHexAux bs (acc * 16 + d)
    | none => none

def ofHex (bs : Bytes) : Option Nat :=
  match bs with
  | [] => none
  | _ => ofHexAux bs 0

/-- `usize::from_str_radix(s, 16)`: optional `+`, hex digits, must fit. -/
def usizeFromHex (bs : Bytes) : Option Nat :=
  let ds := match bs with
    | 43 :: r => r
    | r => r
  match ofHex ds with
  | some n => if n ≤ usizeMax then some n else none
  | none => none

def crlf : Bytes := [13, 10]

end TH
