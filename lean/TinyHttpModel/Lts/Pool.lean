/-
  Lts/Pool.lean — M5: `TaskPool` (src/util/task_pool.rs) as a labelled transition system whose
  steps are the atomic blocks executed under the `todo` mutex, plus thread start / task end.
-/
import TinyHttpModel.Extracted

namespace TH.Lts.Pool

def minThreads : Nat := Extracted.minThreads
def idleNs : Nat := Extracted.idleMs * 1000000
def droppedActive : Nat := 999999999

inductive WPhase where
  | starting (initial : Option Nat)   -- OS thread created, `active_tasks` not yet incremented
  | running (task : Nat)              -- executing a task, outside the lock
  | seeking                           -- at the top of the loop, about to take the lock
  | waiting (deadline : Option Nat)   -- registered in `waiting_tasks`, blocked (timed iff deadline)
  | woken (timedOut : Bool)           -- made runnable, lock not re-acquired yet; still registered
  | exited
deriving DecidableEq, Repr, Inhabited

structure State where
  pending : List Nat := []            -- queued tasks (ids), front first
  workers : List WPhase := []
  active : Nat := 0                   -- `active_tasks`
  waitingCnt : Nat := 0               -- `waiting_tasks`
  dropped : Bool := false
  now : Nat := 0
  dispatched : List Nat := []         -- every task ever handed to `spawn`, in order
  started : List (Nat × Nat) := []    -- (task, worker) in start order
deriving Repr, Inhabited

inductive Branch where
  | newThread
  | queued (woke : Option Nat)
deriving DecidableEq, Repr, Inhabited

inductive Label where
  | dispatch (task : Nat) (b : Branch)
  | begin (w : Nat)
  | finish (w : Nat)
  | look (w : Nat)
  | wake (w : Nat) (timeout : Bool)
  | tick (d : Nat)
  | dropPool
deriving DecidableEq, Repr, Inhabited

def phaseOf (s : State) (w : Nat) : WPhase := s.workers.getD w WPhase.exited

def setPhase (s : State) (w : Nat) (p : WPhase) : State := { s with workers := s.workers.set w p }

def isWaiting : WPhase → Bool
  | .waiting _ => true
  | _ => false

def isWoken : WPhase → Bool
  | .woken _ => true
  | _ => false

def isUntimedWaiting : WPhase → Bool
  | .waiting none => true
  | _ => false

def isLive : WPhase → Bool
  | .exited => false
  | _ => true

def count (s : State) (f : WPhase → Bool) : Nat := (s.workers.filter f).length

def notifyOk (s : State) (woke : Option Nat) : Bool :=
  match woke with
  | some w => isWaiting (phaseOf s w)
  | none => !s.workers.any isWaiting

def applyNotify (s : State) (woke : Option Nat) : State :=
  match woke with
  | some w => setPhase s w (.woken false)
  | none => s

/-- the loop body executed with the lock held, once the worker is past any wake-up handling. -/
def lookTop (s : State) (w : Nat) : State :=
  match s.pending with
  | k :: rest => { setPhase s w (.running k) with pending := rest, started := s.started ++ [(k, w)] }
  | [] =>
    -- `Registration::new(waiting_tasks)`, then timed or untimed wait depending on `active_tasks`
    let s' := { s with waitingCnt := s.waitingCnt + 1 }
    if s.active ≤ minThreads then setPhase s' w (.waiting none)
    else setPhase s' w (.waiting (some (s.now + idleNs)))

def step (s : State) : Label → Option State
  | .dispatch k b =>
    if s.dropped then none
    else
      -- the repaired rule: a new thread unless more workers wait than tasks are already queued
      let wantNew := decide (s.waitingCnt ≤ s.pending.length)
      (match b with
       | .newThread =>
         if wantNew then some { s with workers := s.workers ++ [.starting (some k)], dispatched := s.dispatched ++ [k] }
         else none
       | .queued woke =>
         if !wantNew && notifyOk s woke then
           some (applyNotify { s with pending := s.pending ++ [k], dispatched := s.dispatched ++ [k] } woke)
         else none)
  | .begin w =>
    (match phaseOf s w with
     | .starting (some k) => some { setPhase s w (.running k) with active := s.active + 1, started := s.started ++ [(k, w)] }
     | .starting none => some { setPhase s w .seeking with active := s.active + 1 }
     | _ => none)
  | .finish w =>
    (match phaseOf s w with
     | .running _ => some (setPhase s w .seeking)
     | _ => none)
  | .look w =>
    (match phaseOf s w with
     | .seeking => some (lookTop s w)
     | .woken timedOut =>
       -- lock re-acquired: `received = !timed_out`; give up only if nothing is queued
       let s1 := { s with waitingCnt := s.waitingCnt - 1 }
       if timedOut && s1.pending.isEmpty then
         some { setPhase s1 w .exited with active := s1.active - 1 }
       else some (lookTop s1 w)
     | _ => none)
  | .wake w timeout =>
    (match phaseOf s w with
     | .waiting deadline =>
       if timeout then
         (match deadline with
          | some d => if d ≤ s.now then some (setPhase s w (.woken true)) else none
          | none => none)
       else some (setPhase s w (.woken false))      -- spurious
     | _ => none)
  | .tick d => some { s with now := s.now + d }
  | .dropPool =>
    some { s with dropped := true, active := droppedActive,
                  workers := s.workers.map (fun p => if isWaiting p then .woken false else p) }

def run : State → List Label → Option State
  | s, [] => some s
  | s, l :: ls =>
    match step s l with
    | some s' => run s' ls
    | none => none

/-- a fresh pool: `TaskPool::new()` creates `MIN_THREADS` workers. -/
def init : State := { workers := List.replicate minThreads (.starting none) }

def Reachable (s : State) : Prop := ∃ ls, run init ls = some s

end TH.Lts.Pool
