/-
  Lts/Par.lean — M7: one connection whose requests are handled CONCURRENTLY.

  `Conn.run` (Conn.lean) runs the application sequentially: request i is read, answered and
  dropped before the head of request i+1 is looked at.  The library does not work that way: the
  connection thread parses ahead while handler threads — one per request, or any other
  arrangement — ask for the body, read it, answer through the request's own writer and drop the
  request, all at their own pace.  Two chains keep this in order (src/util/sequential.rs):

  * the READER chain: the client stream belongs to the connection thread until a request with a
    streamed body (Content-Length > 1024, chunked, Expect: 100-continue, upgrade) is created; then it
    belongs to that request's body reader until the body has been read to its end or the request
    is dropped; only then can the next head be parsed.  Buffered and empty bodies never own the
    stream.
  * the WRITER chain: `Lts.Seq` — writer i may write / flush / be dropped only once writer i-1 has
    been dropped.

  This file is the labelled transition system of that arrangement, built from the very functions
  `Conn.handle` is made of (`contBytes`, `handlerReads`, `finishBytes`, `Body.drain`), with `Lts.Seq`
  embedded for the writer side.  Every handler step is atomic at the granularity the two chains
  impose: bytes are submitted in arbitrary pieces (`write i k`), so responses of different
  handlers interleave in time in every possible way.

  Props/C01 proves: whatever the schedule, the bytes submitted to the client are a prefix of the
  sequential run's bytes, and equal to them when nothing more can happen.
-/
import TinyHttpModel.Conn
import TinyHttpModel.Lts.Seq

namespace TH

/-! ### the pieces `Conn.handle` is made of -/

/-- `as_reader()`: the interim response, if this request gets one (`some none` = unmodelled bytes). -/
def contBytes (h : Head) (fr : Framing) (a : Action) : Bytes :=
  if a.asReaderCalls > 0 && fr.expectContinue then
    (printResp (Resp.empty 100) [] h.version h.headers true none).getD []
  else []

/-- the handler's reads: bytes obtained, how the last read ended, new reader state, new stream. -/
def handlerReads (a : Action) (body : Body) (bs : Bytes) (fin : EndState) : Bytes × ReadEnd × Body × Bytes :=
  let zr : Option (Body × Bytes) :=
    if a.asReaderCalls > 0 && a.zeroRead then zeroReadEffect body bs fin else some (body, bs)
  match zr with
  | none => ([], .pending, body, bs)
  | some (body, bs) =>
    let (got, rend, body1, bs1) :=
      if a.asReaderCalls > 0 && a.readTotal > 0 then
        Body.readUpTo (a.readTotal + 1) body (max a.bufSize 1) a.readTotal bs fin
      else ([], none, body, bs)
    let readEnd : ReadEnd := match rend with
      | none => .none
      | some .eof => .eof
      | some .err => .err
      | some .pending => .pending
      | some (.data _) => .none
    (got, readEnd, body1, bs1)

/-- everything the final answer (respond / drop = 500 / raw writer / upgrade) submits. -/
def finishBytes (h : Head) (a : Action) : Bytes :=
  let isHead := h.method.isHead
  match a.fin with
  | .respond r => (printResp r.toResp r.pieces h.version h.headers isHead none).getD []
  | .drop => (printResp (Resp.empty 500) [] h.version h.headers isHead none).getD []
  | .writer ops => wopsBytes ops
  | .upgrade proto r ops =>
    (printResp r.toResp r.pieces h.version h.headers false (some proto)).getD [] ++ wopsBytes ops
  | .respondFail r failAfter =>
    (match printRespFailing r h.version h.headers isHead failAfter with
     | some (bytes, _) => bytes
     | none => [])

/-- does this reader state own the connection's stream? -/
def Body.holdsStream : Body → Bool
  | .limited _ | .chunked _ | .raw | .failed => true
  | .done | .cursor _ => false

namespace Lts.Par

inductive Stage where
  | fresh          -- delivered to the application, untouched
  | cont           -- as_reader() called: the interim response (if any) is being written
  | readDone       -- the reads are over
  | answering      -- the final answer is being written
  | gone           -- request dropped: body discarded, writer dropped
  | stuck          -- blocked for ever on the silent client (in a read or in the discard)
deriving DecidableEq, Repr, Inhabited

/-- who runs a request's steps: an application thread, or the connection thread itself (the 505
    answer and the 400 / 417 error responses, which it writes before doing anything else) -/
inductive Owner where
  | app | conn
deriving DecidableEq, Repr, Inhabited

structure PReq where
  owner : Owner
  head : Head
  fr : Framing
  last : Bool
  act : Action
  body : Body
  stage : Stage := .fresh
  toEmit : Bytes := []            -- bytes of the current message not yet submitted to the writer
  got : Bytes := []
  readEnd : ReadEnd := .none
  /-- for `owner = conn`: the bytes of the error response (the action is not used) -/
  fixed : Bytes := []
deriving Repr, Inhabited

structure State where
  rest : Bytes                      -- client bytes not consumed yet
  fin : EndState
  script : Script
  nextIdx : Nat := 0                -- script index of the next delivered request
  reqs : List PReq := []            -- in parse order; `reqs[i]` uses writer `i`
  parserEnd : Option ConnEnd := none   -- the connection thread stopped parsing
  seq : Lts.Seq.State := {}
deriving Inhabited

inductive Label where
  | parse                           -- connection thread: read the next head, create the request
  | begin (i : Nat)                 -- handler: as_reader() (or: decides not to look at the body)
  | write (i k : Nat)               -- submit the next k ≥ 1 pending bytes through writer i
  | flush (i : Nat)
  | sock (n : Nat)                  -- the BufWriter passes n buffered bytes on
  | reads (i : Nat)                 -- handler: all its reads
  | finish (i : Nat)                -- handler: starts the final answer
  | drop (i : Nat)                  -- the request is dropped: discard the body, drop the writer
deriving DecidableEq, Repr, Inhabited

def init (bs : Bytes) (fin : EndState) (script : Script) : State := { rest := bs, fin := fin, script := script }

def streamHeld (s : State) : Bool :=
  s.reqs.any (fun r => r.body.holdsStream && r.stage != .gone)

/-- the connection thread is busy with a request of its own (505 / error response) -/
def connBusy (s : State) : Bool :=
  s.reqs.any (fun r => r.owner == .conn && r.stage != .gone && r.stage != .stuck)

def setReq (s : State) (i : Nat) (r : PReq) : State := { s with reqs := s.reqs.set i r }

/-- a new request (and its writer) appended -/
def addReq (s : State) (r : PReq) (rest : Bytes) : State :=
  { s with reqs := s.reqs ++ [r], rest := rest,
           seq := { s.seq with writers := s.seq.writers ++ [{}] } }

def errReq (bytes : Bytes) : PReq :=
  { owner := .conn, head := default, fr := ⟨.empty, none, false⟩, last := true,
    act := default, body := .done, stage := .readDone, fixed := bytes }

/-- one iteration of `ClientConnection::next` up to the creation of the request (mirrors
    `runLoop`). -/
def parseStep (s : State) : State :=
  match readHead s.rest s.fin with
  | .error .wrongRequestLine =>
    { addReq s (errReq (printError 400 ⟨1, 1⟩ false)) s.rest with parserEnd := some .closed }
  | .error (.wrongHeader v) =>
    { addReq s (errReq (printError 400 v false)) s.rest with parserEnd := some .closed }
  | .error .notAscii => { s with parserEnd := some .closed }
  | .error (.stop .pending) => { s with parserEnd := some .waiting }
  | .error (.stop _) => { s with parserEnd := some .closed }
  | .ok (h, rest) =>
    match framingFor h.version h.headers with
    | .error .expectationFailed =>
      { addReq s (errReq (printError 417 h.version true)) s.rest with parserEnd := some .closed }
    | .error _ =>
      { addReq s (errReq (printError 400 h.version false)) s.rest with parserEnd := some .closed }
    | .ok fr =>
      let short := match fr.kind with
        | .buffered n => decide (rest.length < n)
        | _ => false
      if short then { s with parserEnd := some (if s.fin == .open then .waiting else .closed) }
      else
        let (body, rest1) := initialBody fr.kind rest
        if (⟨Extracted.maxVersion.1, Extracted.maxVersion.2⟩ : Version).lt h.version then
          -- rejected by the connection thread itself, on the request's own writer
          addReq s { owner := .conn, head := h, fr := fr, last := false, act := default, body := body,
                     stage := .readDone, fixed := print505 } rest1
        else
          let last := isLastRequest h.version h.headers
          let s' := addReq s { owner := .app, head := h, fr := fr, last := last, act := s.script s.nextIdx,
                               body := body } rest1
          { s' with nextIdx := s.nextIdx + 1, parserEnd := if last then some .closed else none }

/-- answers that take the raw writer out of the request (`into_writer`, `upgrade`) -/
def takesWriter (a : Action) : Bool :=
  match a.fin with
  | .writer _ => true
  | .upgrade _ _ _ => true
  | _ => false

def seqStep (s : State) (l : Lts.Seq.Label) : Option State :=
  (Lts.Seq.step s.seq l).map (fun q => { s with seq := q })

def step (s : State) : Label → Option State
  | .parse =>
    if s.parserEnd.isNone && !streamHeld s && !connBusy s then some (parseStep s) else none
  | .begin i =>
    (match s.reqs[i]? with
     | some r =>
       if r.stage == .fresh && r.owner == .app then
         some (setReq s i { r with stage := .cont, toEmit := contBytes r.head r.fr r.act })
       else none
     | none => none)
  | .write i k =>
    (match s.reqs[i]? with
     | some r =>
       if (r.stage == .cont || r.stage == .answering) && 0 < k && k ≤ r.toEmit.length then
         (seqStep s (.write i (r.toEmit.take k))).map (fun s' => setReq s' i { r with toEmit := r.toEmit.drop k })
       else none
     | none => none)
  | .flush i =>
    (match s.reqs[i]? with
     | some r => if r.stage == .cont || r.stage == .answering then seqStep s (.flush i) else none
     | none => none)
  | .sock n => seqStep s (.sock n)
  | .reads i =>
    (match s.reqs[i]? with
     | some r =>
       if r.stage == .cont && r.toEmit.isEmpty then
         let (got, rend, body1, bs1) := handlerReads r.act r.body s.rest s.fin
         let r' := { r with got := got, readEnd := rend, body := body1,
                            stage := if rend == .pending then Stage.stuck else Stage.readDone }
         some { setReq s i r' with rest := bs1 }
       else none
     | none => none)
  | .finish i =>
    (match s.reqs[i]? with
     | some r =>
       if r.stage == .readDone then
         let r' := { r with stage := .answering,
                            toEmit := if r.owner == .conn then r.fixed else finishBytes r.head r.act }
         -- `into_writer()` / `upgrade()` consume the request: its body is discarded (and the stream
         -- released) BEFORE the raw writer is handed out; `respond` and a plain drop discard it
         -- after the answer.  (A discard that would block is left to the `drop` step: there the
         -- model deviates from the library, which would block before writing — as `Conn.handle`.)
         if r.owner == .app && takesWriter r.act then
           match Body.drain (s.rest.length + 2) r.body s.rest s.fin with
           | some rest' => some { setReq s i { r' with body := .done } with rest := rest' }
           | none => some (setReq s i r')
         else some (setReq s i r')
       else none
     | none => none)
  | .drop i =>
    (match s.reqs[i]? with
     | some r =>
       if r.stage == .answering && r.toEmit.isEmpty then
         (match Body.drain (s.rest.length + 2) r.body s.rest s.fin with
          | some rest' =>
            (seqStep s (.drop i)).map (fun s' => { setReq s' i { r with stage := .gone, body := .done } with rest := rest' })
          | none => some { setReq s i { r with stage := .stuck } with rest := [] })
       else none
     | none => none)

def run : State → List Label → Option State
  | s, [] => some s
  | s, l :: ls =>
    match step s l with
    | some s' => run s' ls
    | none => none

def Reachable (bs : Bytes) (fin : EndState) (script : Script) (s : State) : Prop :=
  ∃ ls, run (init bs fin script) ls = some s

/-- every byte submitted to the client so far, in submission order (on the socket or still in the
    shared buffer). -/
def submitted (s : State) : Bytes := s.seq.sock ++ s.seq.buf

/-- no thread can take a step any more (the BufWriter's own `sock` moves aside). -/
def Terminal (s : State) : Prop :=
  ∀ l, (∀ n, l ≠ .sock n) → step s l = none

def isSock : Label → Bool
  | .sock _ => true
  | _ => false

/-- executable form of `Terminal` for a given bound on the piece sizes: the labels worth trying. -/
def candidates (s : State) : List Label :=
  [.parse] ++ (List.range s.reqs.length).flatMap (fun i =>
    [.begin i, .flush i, .reads i, .finish i, .drop i] ++
      (List.range ((s.reqs.getD i default).toEmit.length)).map (fun k => Label.write i (k + 1)))

def terminalB (s : State) : Bool := (candidates s).all (fun l => (step s l).isNone)

/-- what the application saw of request `r` (the `Delivered` record of the sequential run). -/
def deliveredOf (r : PReq) : Delivered :=
  ⟨r.head.method, r.head.url, r.head.version, r.head.headers, r.fr.bodyLength, r.got, r.readEnd, r.last⟩

/-- requests the application has finished reading (or is stuck reading), in parse order. -/
def delivered (s : State) : List Delivered :=
  (s.reqs.filter (fun r => r.owner == .app && (r.stage == .readDone || r.stage == .answering
      || r.stage == .gone || r.stage == .stuck))).map deliveredOf

end Lts.Par
end TH
