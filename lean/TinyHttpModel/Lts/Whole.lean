/-
  Lts/Whole.lean — M9: the whole server as the composition of the accept loop's dispatch, the
  connection thread pool (`Lts.Pool`), the connection threads and the request queue
  (`Lts.Queue`) with its receivers (lib.rs:311-394: `tasks_pool.spawn(move || for rq in client
  { messages.push(rq) })`).

  A connection is seen here from the outside of its parser: the sequence of its complete
  requests, in wire order, as far as they have arrived (`arrive`); what "complete request" means
  and in which order one connection's requests come out is `Conn.run` / `Lts.Par`.  Connection `k`
  is task `k` of the pool.  The worker that runs task `k` pushes the connection's requests to the
  queue one by one (`push`), and the task ends when the connection is over (`close` then `done`).

  The two component LTSs are embedded unchanged: every step of the composition is a step of
  `Lts.Pool`, of `Lts.Queue`, or of both (Props/C07, C08 project the composed runs onto them).
-/
import TinyHttpModel.Lts.Pool
import TinyHttpModel.Lts.Queue

namespace TH.Lts.Whole

structure Conn where
  sent : List Nat := []        -- complete requests received from the client so far, in wire order
  pushed : Nat := 0            -- how many of them the connection thread has queued
  closed : Bool := false       -- the client is gone: no further request will arrive
deriving DecidableEq, Repr, Inhabited

structure State where
  pool : Pool.State := Pool.init
  queue : Queue.State := {}
  conns : List Conn := []      -- index = task id in the pool
deriving Repr, Inhabited

inductive Label where
  /-- the accept loop hands a new connection (task `conns.length`) to the pool -/
  | accept (b : Pool.Branch)
  /-- a complete request `v` of connection `k` has arrived -/
  | arrive (k v : Nat)
  /-- connection `k`'s client closes -/
  | close (k : Nat)
  /-- worker `w`, running connection `k`'s task, queues the connection's next request;
      `woke` = the receiver `notify_one` woke -/
  | push (w : Nat) (woke : Option Nat)
  /-- worker `w`'s connection is over (closed, everything queued): the task ends -/
  | done (w : Nat)
  /-- a step of the pool alone (worker begins / looks / is woken / time passes / pool dropped) -/
  | pool (l : Pool.Label)
  /-- a step of the queue alone (receiver calls / looks / is woken / unblock / time passes) -/
  | queue (l : Queue.Label)
deriving Repr, Inhabited

def poolOnly : Pool.Label → Bool
  | .dispatch _ _ => false
  | .finish _ => false
  | _ => true

def queueOnly : Queue.Label → Bool
  | .push _ _ => false
  | _ => true

def taskOf (s : State) (w : Nat) : Option Nat :=
  match Pool.phaseOf s.pool w with
  | .running k => some k
  | _ => none

def step (s : State) : Label → Option State
  | .accept b =>
    (Pool.step s.pool (.dispatch s.conns.length b)).map (fun p => { s with pool := p, conns := s.conns ++ [{}] })
  | .arrive k v =>
    (match s.conns[k]? with
     | some c => if c.closed then none else some { s with conns := s.conns.set k { c with sent := c.sent ++ [v] } }
     | none => none)
  | .close k =>
    (match s.conns[k]? with
     | some c => some { s with conns := s.conns.set k { c with closed := true } }
     | none => none)
  | .push w woke =>
    (match taskOf s w with
     | some k =>
       (match s.conns[k]? with
        | some c =>
          (match c.sent[c.pushed]? with
           | some v =>
             (Queue.step s.queue (.push v woke)).map (fun q =>
               { s with queue := q, conns := s.conns.set k { c with pushed := c.pushed + 1 } })
           | none => none)
        | none => none)
     | none => none)
  | .done w =>
    (match taskOf s w with
     | some k =>
       (match s.conns[k]? with
        | some c =>
          if c.closed && c.pushed == c.sent.length then
            (Pool.step s.pool (.finish w)).map (fun p => { s with pool := p })
          else none
        | none => none)
     | none => none)
  | .pool l => if poolOnly l then (Pool.step s.pool l).map (fun p => { s with pool := p }) else none
  | .queue l => if queueOnly l then (Queue.step s.queue l).map (fun q => { s with queue := q }) else none

def run : State → List Label → Option State
  | s, [] => some s
  | s, l :: ls =>
    match step s l with
    | some s' => run s' ls
    | none => none

def Reachable (s : State) : Prop := ∃ ls, run {} ls = some s

/-- the requests of connection `k` that its thread has queued so far -/
def pushedOf (c : Conn) : List Nat := c.sent.take c.pushed

/-- every request the clients have sent so far, connection by connection -/
def allSent (s : State) : List Nat := (s.conns.map (·.sent)).flatten

end TH.Lts.Whole
