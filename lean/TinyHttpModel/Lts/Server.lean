/-
  Lts/Server.lean — M7: the accept loop and `Drop for Server` (lib.rs:311-394, 458-482).
  OS behaviour (a closed listener refuses connections; remove_file) is outside the model.
-/
namespace TH.Lts.Server

inductive Pc where
  | checkFlag      -- `while !close.load()`
  | inAccept       -- blocked in / about to return from `server.accept()`
  | exited         -- loop left: listener and task pool dropped
deriving DecidableEq, Repr, Inhabited

structure SState where
  flag : Bool := false             -- the `close` AtomicBool
  pc : Pc := .checkFlag
  listenerOpen : Bool := true
  backlog : List Nat := []         -- connections waiting to be accepted
  dispatched : List Nat := []      -- connections handed to the pool
  handedOut : List Nat := []       -- requests handed to the application, not yet answered
  answered : List Nat := []
  acceptsAfterFlag : Nat := 0      -- accepts performed after the flag was set
deriving Repr, Inhabited

inductive SLabel where
  | connect (c : Nat)              -- a client (or the self-connection of Drop) connects
  | loopCheck                      -- the accept thread evaluates the loop condition
  | accepted (c : Nat)             -- `accept()` returns connection c, which is dispatched
  | deliver (r : Nat)              -- a connection thread hands request r to the application
  | answer (r : Nat)               -- the application answers r (its writer is its own handle)
  | dropServer                     -- `Drop for Server`: set the flag (the self-connect is a `connect`)
deriving DecidableEq, Repr, Inhabited

def sstep (s : SState) : SLabel → Option SState
  | .connect c => if s.listenerOpen then some { s with backlog := s.backlog ++ [c] } else none
  | .loopCheck =>
    (match s.pc with
     | .checkFlag =>
       if s.flag then some { s with pc := .exited, listenerOpen := false, backlog := [] }
       else some { s with pc := .inAccept }
     | _ => none)
  | .accepted c =>
    (match s.pc, s.backlog with
     | .inAccept, c' :: rest =>
       if c = c' then
         some { s with pc := .checkFlag, backlog := rest, dispatched := s.dispatched ++ [c],
                       acceptsAfterFlag := if s.flag then s.acceptsAfterFlag + 1 else s.acceptsAfterFlag }
       else none
     | _, _ => none)
  | .deliver r => some { s with handedOut := s.handedOut ++ [r] }
  | .answer r =>
    if r ∈ s.handedOut then some { s with handedOut := s.handedOut.erase r, answered := s.answered ++ [r] } else none
  | .dropServer => some { s with flag := true }

def srun : SState → List SLabel → Option SState
  | s, [] => some s
  | s, l :: ls =>
    match sstep s l with
    | some s' => srun s' ls
    | none => none

end TH.Lts.Server
