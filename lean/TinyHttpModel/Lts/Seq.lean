/-
  Lts/Seq.lean — M3: `SequentialWriterBuilder` / `SequentialWriter` (src/util/sequential.rs) over
  the shared `BufWriter`, as a labelled transition system.  Writer `i` may write, flush or be
  dropped only once writer `i-1` has been dropped (its `on_finish` signal is what `trigger.recv()`
  waits for); with the F9 repair `Drop` waits for the turn as well.  The `BufWriter` is abstract:
  any policy that moves a prefix of the buffer to the socket (`sock n`).

  The same chain structure orders the `SequentialReader`s: reader `i+1` gets the socket reader
  when reader `i` is dropped; instantiate `write` as "consume bytes of the stream".
-/
namespace TH.Lts.Seq

structure W where
  dropped : Bool := false
  submitted : List Nat := []      -- bytes written through this writer so far
deriving DecidableEq, Repr, Inhabited

structure State where
  writers : List W := []           -- in issue order
  buf : List Nat := []             -- bytes in the shared BufWriter
  sock : List Nat := []            -- bytes that reached the socket
deriving Repr, Inhabited

inductive Label where
  | issue
  | write (i : Nat) (bs : List Nat)
  | flush (i : Nat)
  | drop (i : Nat)
  | sock (n : Nat)                 -- the BufWriter hands its first n buffered bytes to the socket
deriving DecidableEq, Repr, Inhabited

def isDropped (s : State) (i : Nat) : Bool := (s.writers.getD i {}).dropped

/-- writer `i` exists, is alive, and its predecessor (if any) has been dropped. -/
def hasTurn (s : State) (i : Nat) : Bool :=
  decide (i < s.writers.length) && !isDropped s i && (i == 0 || isDropped s (i - 1))

def step (s : State) : Label → Option State
  | .issue => some { s with writers := s.writers ++ [{}] }
  | .write i bs =>
    if hasTurn s i then
      some { s with writers := s.writers.set i { (s.writers.getD i {}) with submitted := (s.writers.getD i {}).submitted ++ bs },
                    buf := s.buf ++ bs }
    else none
  | .flush i =>
    if hasTurn s i then some { s with sock := s.sock ++ s.buf, buf := [] } else none
  | .drop i =>
    if hasTurn s i then some { s with writers := s.writers.set i { (s.writers.getD i {}) with dropped := true } } else none
  | .sock n =>
    if n ≤ s.buf.length then some { s with sock := s.sock ++ s.buf.take n, buf := s.buf.drop n } else none

def run : State → List Label → Option State
  | s, [] => some s
  | s, l :: ls =>
    match step s l with
    | some s' => run s' ls
    | none => none

def Reachable (s : State) : Prop := ∃ ls, run {} ls = some s

/-- everything submitted, writer by writer, in issue order. -/
def inOrder (s : State) : List Nat := (s.writers.map (·.submitted)).flatten

end TH.Lts.Seq
