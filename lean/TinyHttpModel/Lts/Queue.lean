/-
  Lts/Queue.lean — M4: `MessagesQueue` (src/util/messages_queue.rs) and the receive calls of
  `Server` (lib.rs:417-448) as a labelled transition system whose steps are the atomic blocks
  executed under the queue's mutex.

  Threads: every receiver thread has a phase.  One `look` step is one pass through the loop body
  of `pop` / `try_pop` / `pop_timeout` with the lock held: (for a thread that was just woken:
  account the time slept, decide whether the timeout expired) then `pop_front`, then either
  return or start waiting.  `push` / `unblock` append and `notify_one` (the label says which
  waiter, if any, was woken).  Time is a counter in ns advanced by `tick`.
-/
namespace TH.Lts.Queue

inductive Item where
  | elem (v : Nat)
  | token
deriving DecidableEq, Repr, Inhabited

inductive Call where
  | pop
  | tryPop
  | popTimeout (timeout : Nat)     -- ns
deriving DecidableEq, Repr, Inhabited

/-- what a receive call returned -/
inductive Res where
  | value (v : Nat)
  | byToken                -- returned empty-handed because it consumed an unblock token
  | empty                  -- returned empty-handed: queue empty (try_pop) or time is up (pop_timeout)
deriving DecidableEq, Repr, Inhabited

inductive Phase where
  | idle
  /-- holds (or is about to take) the lock at the top of the loop; `dur` = remaining budget of a
      timed call, `expired` = the previous wait used it up -/
  | ready (c : Call) (callStart dur : Nat) (expired : Bool)
  /-- blocked in `condvar.wait` / `wait_timeout` since `start` -/
  | waiting (c : Call) (callStart dur start : Nat) (deadline : Option Nat)
  /-- made runnable by a notification / a timeout / spuriously; has not re-acquired the lock yet -/
  | woken (c : Call) (callStart dur start : Nat) (timedOut : Bool)
deriving DecidableEq, Repr, Inhabited

structure Record where
  tid : Nat
  call : Call
  callStart : Nat
  retTime : Nat
  res : Res
deriving DecidableEq, Repr, Inhabited

structure State where
  queue : List Item := []
  phases : List Phase := []          -- index = receiver thread id
  now : Nat := 0
  pushed : List Nat := []            -- every value ever pushed, in push order
  taken : List Nat := []             -- every value ever returned, in return order
  tokensPushed : Nat := 0
  tokensTaken : Nat := 0
  log : List Record := []            -- completed calls, in completion order
deriving Repr, Inhabited

inductive WakeReason where
  | timeout | spurious
deriving DecidableEq, Repr, Inhabited

inductive Label where
  | call (t : Nat) (c : Call)
  | look (t : Nat)
  | push (v : Nat) (woke : Option Nat)
  | unblock (woke : Option Nat)
  | wake (t : Nat) (r : WakeReason)
  | tick (d : Nat)
deriving DecidableEq, Repr, Inhabited

def slackNs : Nat := 1000000     -- `duration.subsec_nanos() < 1_000_000`

def phaseOf (s : State) (t : Nat) : Phase := s.phases.getD t Phase.idle

def setPhase (s : State) (t : Nat) (p : Phase) : State :=
  { s with phases := (s.phases ++ List.replicate (t + 1 - s.phases.length) Phase.idle).set t p }

def isWaiting : Phase → Bool
  | .waiting .. => true
  | _ => false

def isRunnable : Phase → Bool
  | .ready .. => true
  | .woken .. => true
  | _ => false

/-- `notify_one`: the label names the woken waiter; it must be waiting, and `none` is only allowed
    when nobody waits. -/
def notifyOk (s : State) (woke : Option Nat) : Bool :=
  match woke with
  | some t => isWaiting (phaseOf s t)
  | none => !s.phases.any isWaiting

def applyNotify (s : State) (woke : Option Nat) : State :=
  match woke with
  | some t =>
    (match phaseOf s t with
     | .waiting c cs dur start _ => setPhase s t (.woken c cs dur start false)
     | _ => s)
  | none => s

/-- the part of `look` that runs with the lock held at the top of the loop. -/
def lookReady (s : State) (t : Nat) (c : Call) (cs dur : Nat) (expired : Bool) : State :=
  match s.queue with
  | .elem v :: rest =>
    { setPhase s t .idle with queue := rest, taken := s.taken ++ [v], log := s.log ++ [⟨t, c, cs, s.now, .value v⟩] }
  | .token :: rest =>
    { setPhase s t .idle with queue := rest, tokensTaken := s.tokensTaken + 1, log := s.log ++ [⟨t, c, cs, s.now, .byToken⟩] }
  | [] =>
    match c with
    | .tryPop => { setPhase s t .idle with log := s.log ++ [⟨t, c, cs, s.now, .empty⟩] }
    | .pop => setPhase s t (.waiting c cs dur s.now none)
    | .popTimeout T =>
      if expired then { setPhase s t .idle with log := s.log ++ [⟨t, c, cs, s.now, .empty⟩] }
      else setPhase s t (.waiting c cs dur s.now (some (s.now + T)))   -- every wait uses the full timeout

def step (s : State) : Label → Option State
  | .call t c =>
    (match phaseOf s t with
     | .idle =>
       let dur := match c with | .popTimeout T => T | _ => 0
       some (setPhase s t (.ready c s.now dur false))
     | _ => none)
  | .look t =>
    (match phaseOf s t with
     | .ready c cs dur expired => some (lookReady s t c cs dur expired)
     | .woken c cs dur start timedOut =>
       -- after the wait: `sleep_time = now.elapsed()`, `duration -= sleep_time`, expiry test; then loop
       let slept := s.now - start
       let dur' := dur - slept
       let expired := match c with
         | .popTimeout _ => timedOut || decide (dur' < slackNs)
         | _ => false
       some (lookReady s t c cs dur' expired)
     | _ => none)
  | .push v woke =>
    if notifyOk s woke then
      some (applyNotify { s with queue := s.queue ++ [.elem v], pushed := s.pushed ++ [v] } woke)
    else none
  | .unblock woke =>
    if notifyOk s woke then
      some (applyNotify { s with queue := s.queue ++ [.token], tokensPushed := s.tokensPushed + 1 } woke)
    else none
  | .wake t r =>
    (match phaseOf s t with
     | .waiting c cs dur start deadline =>
       (match r with
        | .spurious => some (setPhase s t (.woken c cs dur start false))
        | .timeout =>
          (match deadline with
           | some d => if d ≤ s.now then some (setPhase s t (.woken c cs dur start true)) else none
           | none => none))
     | _ => none)
  | .tick d => some { s with now := s.now + d }

def run : State → List Label → Option State
  | s, [] => some s
  | s, l :: ls =>
    match step s l with
    | some s' => run s' ls
    | none => none

def Reachable (s : State) : Prop := ∃ ls, run {} ls = some s

/-! zero-latency executions (the runtime with `p_timer = 0`): time only passes when no receiver is
    runnable, and never beyond the earliest pending deadline. -/

def deadlineOf : Phase → Option Nat
  | .waiting _ _ _ _ d => d
  | _ => none

def tickOk (s : State) (d : Nat) : Bool :=
  !s.phases.any isRunnable && s.phases.all (fun p => match deadlineOf p with
    | some dl => decide (s.now + d ≤ dl)
    | none => true)

def stepZL (s : State) (l : Label) : Option State :=
  match l with
  | .tick d => if tickOk s d then step s l else none
  | .wake _ .spurious => step s l
  | _ => step s l

def runZL : State → List Label → Option State
  | s, [] => some s
  | s, l :: ls =>
    match stepZL s l with
    | some s' => runZL s' ls
    | none => none

/-! observables used by the property statements -/

def elems : List Item → List Nat
  | [] => []
  | .elem v :: r => v :: elems r
  | .token :: r => elems r

def tokens : List Item → Nat
  | [] => 0
  | .elem _ :: r => tokens r
  | .token :: r => tokens r + 1

def countP (s : State) (f : Phase → Bool) : Nat := (s.phases.filter f).length

end TH.Lts.Queue
