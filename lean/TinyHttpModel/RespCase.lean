/-
  RespCase.lean — `resp` cases of the line protocol: build a response through the same
  constructor/op sequence as the harness, run the model's `rawPrint`, compare with the
  implementation's observation, and evaluate the C04/C05/C19 oracles on the implementation's
  output.
-/
import TinyHttpModel.Proto
import TinyHttpModel.RespSpec

namespace TH.RespCase
open TH.Proto

/-- a response under construction: the model object, its body pieces, and every header the
    application supplied so far (constructor and ops, in order). -/
structure Built where
  resp : Resp
  pieces : List Bytes
  supplied : List Header
  declInit : Option Nat     -- declared length before any supplied Content-Length header
deriving Repr

def construct (kv : KV) : Built :=
  let ctor := get kv "ctor"
  let body := piecesOf ',' (get kv "cbody")
  let all := body.flatten
  if ctor == "string" then
    ⟨Resp.fromString all, body, [ctHeader], some all.length⟩
  else if ctor == "data" || ctor == "file" then
    ⟨Resp.fromData all, body, [], some all.length⟩
  else if ctor == "empty" then
    ⟨Resp.empty (toNatD (get kv "cstatus")), [], [], some 0⟩
  else
    let hs := headersOf (get kv "chdrs")
    let len := optNat (get kv "clen")
    ⟨Resp.new (toNatD (get kv "cstatus")) hs len, body, hs, len⟩

def applyOp (b : Built) (op : String) : Built :=
  match splitS ':' op with
  | ["h", n, v] =>
    let h : Header := ⟨unhex n, unhex v⟩
    { b with resp := addHeader b.resp h, supplied := b.supplied ++ [h] }
  | ["s", n] => { b with resp := { b.resp with status := toNatD n } }
  | ["t", n] => { b with resp := { b.resp with threshold := some (toNatD n) } }
  | ["d", l, ps] =>
    -- with_data: new reader and length; headers supplied so far no longer influence the length
    { b with resp := b.resp.withData (optNat l), pieces := piecesOf '.' ps,
             supplied := b.supplied.filter (fun h => !h.is b!"Content-Length"), declInit := optNat l }
  | _ => b

def build (kv : KV) : Built := (listS ';' (get kv "ops")).foldl applyOp (construct kv)

/-- header block of an output, parsed by the independent client parser. -/
def outHeaders (out : Bytes) : Option (Nat × List Header) :=
  match Client.splitLine out with
  | none => none
  | some (sl, r0) =>
    match Client.parseStatusLine sl, Client.parseHeaders (r0.length + 1) r0 with
    | some (_, st), some (hs, _) => some (st, hs)
    | _, _ => none

def tri (applies : Bool) (holds : Bool) : String := if !applies then "na" else b01 holds

def run (kv : KV) : String :=
  let b := build kv
  let ctx : ReqCtx :=
    { version := versionOf (get kv "ver"), reqHeaders := headersOf (get kv "reqhdrs"),
      noBody := get kv "nobody" == "1",
      upgrade := if get kv "upgrade" == "none" then none else some (unhex (get kv "upgrade")) }
  let date := unhex (get kv "date")
  let out := unhex (get kv "out")
  let body := b.pieces.flatten
  -- getters
  let gStatus := toNatD (get kv "status")
  let gLen := optNat (get kv "dlen")
  let gHdrs := headersOf (get kv "hdrs")
  let gettersAgree := gStatus == b.resp.status && gLen == b.resp.dataLength && gHdrs == b.resp.headers
  let model := rawPrint b.resp ctx date b.pieces
  let teL := Spec.teList ctx.reqHeaders
  let unmodelled := model.isNone
  let printAgree := match model with
    | some m => m == out
    | none => true
  let declOk := match b.resp.dataLength with
    | some n => n == body.length
    | none => true
  -- implementation-side oracles
  let oh := outHeaders out
  let valueClean := b.resp.headers.all (fun h => !h.value.contains 13 && !h.value.contains 10
                      && !h.name.contains 13 && !h.name.contains 10 && !h.name.contains 58 && !h.name.isEmpty)
  let c04app := declOk && ctx.upgrade.isNone && valueClean
  -- "one well-formed message": the client recovers status and body, AND the header block delimits the
  -- message in exactly one way (never Content-Length next to Transfer-Encoding, RFC 7230 3.3.2/3.3.3)
  let wellFramed := match outHeaders out with
    | some (_, hs) => Spec.framedOf hs != .other
    | none => false
  let c04 := Spec.c04Holds ctx.noBody gStatus body out && wellFramed
  let c05 := match teL, oh with
    | some te, some (_, hs) =>
      some (Spec.c05Holds ctx.version gStatus te gLen b.resp.chunkedThreshold body.length ctx.upgrade.isSome hs)
    | _, _ => none
  let c05app := teL.isSome && 100 ≤ gStatus
  let dateAuto := !(Spec.policy b.supplied).any (·.is b!"Date")
  let c19 := match oh with
    | some (_, hs) =>
      Spec.c19Holds b.supplied ctx.upgrade.isSome hs
        && (!dateAuto || (Spec.isImfFixdate date && get kv "dateok" == "1"))
        && gLen == Spec.declaredLen b.declInit b.supplied
    | none => false
  let c19app := valueClean
  let coding := match oh with
    | some (_, hs) => (match Spec.framedOf hs with
        | .identity _ => "identity" | .chunked => "chunked" | .neither => "neither" | .other => "other")
    | none => "unparsed"
  let tags := [
    "coding:" ++ coding,
    "ver:" ++ get kv "ver",
    "status:" ++ (if gStatus < 100 then "lt100" else if gStatus < 200 then "1xx" else if gStatus == 204 then "204"
                  else if gStatus == 304 then "304" else if gStatus < 1000 then "other" else "ge1000"),
    "len:" ++ (match gLen with | none => "unknown" | some _ => "known"),
    "te:" ++ (if (findHeader ctx.reqHeaders b!"TE").isNone then "absent" else if unmodelled then "unmodelled" else "parsed"),
    "head:" ++ b01 ctx.noBody,
    "upgrade:" ++ b01 ctx.upgrade.isSome,
    "ctor:" ++ get kv "ctor",
    "declok:" ++ b01 declOk,
    "prefail:" ++ (if get kv "prefail" == "1" then "1" else "0") ]
  -- agreement projected on the observables each property talks about
  let mh := model.bind outHeaders
  let aC05 := unmodelled || (match mh, oh with
    | some (_, a), some (_, b) => Spec.framedOf a == Spec.framedOf b
    | none, none => true
    | _, _ => false)
  let aC19 := unmodelled || (gettersAgree && (match mh, oh with
    | some (_, a), some (_, b) => a == b
    | none, none => true
    | _, _ => false))
  let proj (o : Bytes) := (Client.decode ctx.noBody o).map (fun (m, rest) => (m.status, m.body, m.kind, rest))
  let aC04 := unmodelled || (match model with
    | some m => proj m == proj out
    | none => true)
  let diff :=
    if !gettersAgree then
      "getters model=(" ++ toString b.resp.status ++ "," ++ showOptNat b.resp.dataLength ++ "," ++ hexHeaders b.resp.headers ++ ")"
    else if !printAgree then "raw_print model=" ++ hex (model.getD [])
    else "-"
  "res id=" ++ get kv "id" ++ " agree=" ++ b01 (gettersAgree && printAgree)
    ++ " skip=" ++ b01 unmodelled
    ++ " aC04=" ++ b01 aC04 ++ " aC05=" ++ b01 aC05 ++ " aC19=" ++ b01 aC19
    ++ " C04=" ++ tri c04app c04
    ++ " C05=" ++ tri (c05app && c05.isSome) (c05.getD false)
    ++ " C19=" ++ tri c19app c19
    ++ " tags=" ++ ",".intercalate tags ++ " diff=" ++ diff

end TH.RespCase
