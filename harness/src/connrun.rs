//! `conn` cases: one client byte stream against a real `Server` over loopback TCP (or a UNIX
//! socket), with a scripted sequential application.  Emits one protocol line per case.
use crate::respgen::PieceReader;
use crate::{hex, unhex};
use std::io::{Read, Write};
use std::net::{Shutdown, TcpStream};
use std::sync::mpsc;
use std::time::{Duration, Instant};
use tiny_http::{Header, Response, Server, StatusCode};

#[derive(Clone, Debug)]
pub struct RespSpec {
    pub status: u16,
    pub hdrs: Vec<(Vec<u8>, Vec<u8>)>,
    pub declared: Option<usize>,
    pub thr: Option<usize>,
    pub pieces: Vec<Vec<u8>>,
}

#[derive(Clone, Debug)]
pub enum WOp {
    W(Vec<u8>),
    F,
}

#[derive(Clone, Debug)]
pub enum Finish {
    /// respond with a body reader that fails after that many bytes
    RespondFail(RespSpec, usize),
    Respond(RespSpec),
    Drop,
    Panic,
    Writer(Vec<WOp>),
    Upgrade(Vec<u8>, RespSpec, Vec<WOp>),
}

/// one application read of up to `want` bytes into `buf[..want]`, through the plain or the
/// vectored entry point of the reader (same read either way: odd sizes go through `read_vectored`
/// with one buffer, sizes that are 2 mod 4 with two buffers of half the size each — each of
/// which may fit into what is left of a body although both together do not —, the rest through `read`)
pub fn read_some<R: std::io::Read + ?Sized>(reader: &mut R, buf: &mut [u8], want: usize) -> std::io::Result<usize> {
    if want % 2 == 1 {
        reader.read_vectored(&mut [std::io::IoSliceMut::new(&mut buf[..want])])
    } else if want % 8 == 4 {
        // an empty buffer first: the read goes into the first non-empty one
        let (a, b) = buf[..want].split_at_mut(0);
        reader.read_vectored(&mut [std::io::IoSliceMut::new(a), std::io::IoSliceMut::new(b)])
    } else if want % 4 == 2 && want >= 2 {
        let (a, b) = buf[..want].split_at_mut(want / 2);
        reader.read_vectored(&mut [std::io::IoSliceMut::new(a), std::io::IoSliceMut::new(b)])
    } else {
        reader.read(&mut buf[..want])
    }
}

/// `Action::buf` value that stands for "read the whole body with one `read_to_end`"
pub const READ_TO_END: usize = 1_000_000_007;

/// `Action::delay_ms` values from here on mean: wait `delay_ms - PRE_DELAY` ms *before* the first
/// `as_reader()` (smaller values: wait before finishing)
pub const PRE_DELAY: u64 = 1_000_000;

#[derive(Clone, Debug)]
pub struct Action {
    pub as_reader: usize,
    pub read_total: usize,
    pub buf: usize,
    pub delay_ms: u64,
    pub fin: Finish,
    /// first perform one read with an empty buffer
    pub zero_read: bool,
}

#[derive(Clone, Debug, PartialEq)]
pub enum Mode {
    HalfClose,
    Open,
}

#[derive(Clone, Debug)]
pub struct ConnCase {
    pub bytes: Vec<u8>,
    pub mode: Mode,
    /// two-phase client: send `bytes[..hold]`, wait until the server has sent something, then the rest
    pub hold: Option<usize>,
    /// segment boundaries (offsets into `bytes`), each segment written separately after a pause
    pub segs: Vec<usize>,
    pub script: Vec<Action>,
    pub unix: bool,
    /// opaque metadata for the driver's oracles (`key=value` tokens, no spaces inside values)
    pub intent: String,
}

// ---- encoding ------------------------------------------------------------------------------

fn hdrs_enc(hs: &[(Vec<u8>, Vec<u8>)]) -> String {
    hs.iter().map(|(n, v)| format!("{}~{}", hex(n), hex(v))).collect::<Vec<_>>().join("+")
}

fn opt(n: &Option<usize>) -> String {
    n.map(|x| x.to_string()).unwrap_or_else(|| "none".into())
}

fn resp_enc(r: &RespSpec) -> String {
    format!(
        "{}:{}:{}:{}:{}",
        r.status,
        hdrs_enc(&r.hdrs),
        opt(&r.declared),
        opt(&r.thr),
        r.pieces.iter().filter(|p| !p.is_empty()).map(|p| hex(p)).collect::<Vec<_>>().join(".")
    )
}

fn ops_enc(ops: &[WOp]) -> String {
    ops.iter()
        .map(|o| match o {
            WOp::W(b) => format!("w{}", hex(b)),
            WOp::F => "f".to_string(),
        })
        .collect::<Vec<_>>()
        .join(".")
}

pub fn action_enc(a: &Action) -> String {
    let fin = match &a.fin {
        Finish::RespondFail(r, n) => format!("respondfail:{}:{}", n, resp_enc(r)),
        Finish::Respond(r) => format!("respond:{}", resp_enc(r)),
        Finish::Drop => "drop".into(),
        Finish::Panic => "panic".into(),
        Finish::Writer(ops) => format!("writer:{}", ops_enc(ops)),
        Finish::Upgrade(p, r, ops) => format!("upgrade:{}:{}:{}", hex(p), resp_enc(r), ops_enc(ops)),
    };
    format!("ar{},rd{},bs{},dl{},zr{},{}", a.as_reader, a.read_total, a.buf, a.delay_ms, if a.zero_read { 1 } else { 0 }, fin)
}

// ---- decoding (replay) ---------------------------------------------------------------------

fn hdrs_dec(s: &str) -> Vec<(Vec<u8>, Vec<u8>)> {
    if s.is_empty() {
        return vec![];
    }
    s.split('+')
        .map(|p| {
            let mut it = p.splitn(2, '~');
            (unhex(it.next().unwrap_or("")), unhex(it.next().unwrap_or("")))
        })
        .collect()
}

fn opt_dec(s: &str) -> Option<usize> {
    if s == "none" {
        None
    } else {
        s.parse().ok()
    }
}

fn resp_dec(f: &[&str]) -> RespSpec {
    RespSpec {
        status: f.first().and_then(|s| s.parse().ok()).unwrap_or(200),
        hdrs: hdrs_dec(f.get(1).unwrap_or(&"")),
        declared: opt_dec(f.get(2).unwrap_or(&"none")),
        thr: opt_dec(f.get(3).unwrap_or(&"none")),
        pieces: f.get(4).map(|s| if s.is_empty() { vec![] } else { s.split('.').map(unhex).collect() }).unwrap_or_default(),
    }
}

fn ops_dec(s: &str) -> Vec<WOp> {
    if s.is_empty() {
        return vec![];
    }
    s.split('.').map(|o| if o == "f" { WOp::F } else { WOp::W(unhex(&o[1..])) }).collect()
}

pub fn action_dec(s: &str) -> Action {
    let parts: Vec<&str> = s.splitn(6, ',').collect();
    let num = |p: &str| p[2..].parse::<usize>().unwrap_or(0);
    let fin_s = parts.get(5).cloned().unwrap_or("drop");
    let f: Vec<&str> = fin_s.split(':').collect();
    let fin = match f[0] {
        "respondfail" => Finish::RespondFail(resp_dec(&f[2..]), f.get(1).and_then(|x| x.parse().ok()).unwrap_or(0)),
        "respond" => Finish::Respond(resp_dec(&f[1..])),
        "panic" => Finish::Panic,
        "writer" => Finish::Writer(ops_dec(f.get(1).unwrap_or(&""))),
        "upgrade" => Finish::Upgrade(unhex(f.get(1).unwrap_or(&"")), resp_dec(&f[2..7.min(f.len())]), ops_dec(f.get(7).unwrap_or(&""))),
        _ => Finish::Drop,
    };
    Action {
        as_reader: num(parts.first().unwrap_or(&"ar0")),
        read_total: num(parts.get(1).unwrap_or(&"rd0")),
        buf: num(parts.get(2).unwrap_or(&"bs1")),
        delay_ms: num(parts.get(3).unwrap_or(&"dl0")) as u64,
        fin,
        zero_read: num(parts.get(4).unwrap_or(&"zr0")) == 1,
    }
}

pub fn case_from_line(line: &str) -> Option<ConnCase> {
    let mut kv = std::collections::HashMap::new();
    let mut intent = vec![];
    for tok in line.split(' ') {
        if let Some(i) = tok.find('=') {
            let (k, v) = (&tok[..i], &tok[i + 1..]);
            if k.starts_with("i_") {
                intent.push(tok.to_string());
            }
            kv.insert(k.to_string(), v.to_string());
        }
    }
    let g = |k: &str| kv.get(k).cloned().unwrap_or_default();
    if !line.starts_with("conn ") {
        return None;
    }
    Some(ConnCase {
        bytes: unhex(&g("bytes")),
        mode: if g("mode") == "open" { Mode::Open } else { Mode::HalfClose },
        hold: opt_dec(&g("hold")),
        segs: if g("segs").is_empty() || g("segs") == "none" { vec![] } else { g("segs").split(',').filter_map(|s| s.parse().ok()).collect() },
        script: g("script").split('|').filter(|s| !s.is_empty()).map(action_dec).collect(),
        unix: g("unix") == "1",
        intent: intent.join(" "),
    })
}

// ---- execution -----------------------------------------------------------------------------

enum Ev {
    Head { method: Vec<u8>, mkind: String, url: Vec<u8>, ver: (u8, u8), hdrs: Vec<(Vec<u8>, Vec<u8>)>, len: Option<usize>, addr: String },
    Data(Vec<u8>),
    ReadEnd(&'static str),
    Done(bool),
    /// a request of the RST prelude reached the application (legitimate when the reset came after
    /// the server had looked at the socket); true = it carried a peer address
    Gone(bool),
}

/// yields the pieces, but returns an I/O error once `fail_after` bytes were produced
pub struct FailingReader {
    inner: PieceReader,
    left: usize,
}

impl FailingReader {
    pub fn new(pieces: Vec<Vec<u8>>, fail_after: usize) -> FailingReader {
        FailingReader { inner: PieceReader::new(pieces), left: fail_after }
    }
}

impl Read for FailingReader {
    fn read(&mut self, buf: &mut [u8]) -> std::io::Result<usize> {
        if buf.is_empty() {
            return Ok(0);
        }
        // peek: is there anything left to produce?
        let mut probe = [0u8; 1];
        if self.left == 0 {
            return match self.inner.read(&mut probe) {
                Ok(0) => Ok(0),
                _ => Err(std::io::Error::new(std::io::ErrorKind::Other, "body reader failed")),
            };
        }
        let n = std::cmp::min(buf.len(), self.left);
        let got = self.inner.read(&mut buf[..n])?;
        self.left -= got;
        Ok(got)
    }
}

pub fn mk_failing_response(r: &RespSpec, fail_after: usize) -> Response<Box<dyn Read + Send>> {
    let mut resp = Response::new(
        StatusCode(r.status),
        r.hdrs.iter().filter_map(|(n, v)| Header::from_bytes(n.clone(), v.clone()).ok()).collect(),
        Box::new(FailingReader::new(r.pieces.clone(), fail_after)) as Box<dyn Read + Send>,
        r.declared,
        None,
    );
    if let Some(t) = r.thr {
        resp = resp.with_chunked_threshold(t);
    }
    resp
}

fn mk_response(r: &RespSpec) -> Response<Box<dyn Read + Send>> {
    let mut resp = Response::new(
        StatusCode(r.status),
        r.hdrs.iter().filter_map(|(n, v)| Header::from_bytes(n.clone(), v.clone()).ok()).collect(),
        Box::new(PieceReader::new(r.pieces.clone())) as Box<dyn Read + Send>,
        r.declared,
        None,
    );
    if let Some(t) = r.thr {
        resp = resp.with_chunked_threshold(t);
    }
    resp
}

fn do_ops<W: Write + ?Sized>(w: &mut W, ops: &[WOp]) {
    for o in ops {
        match o {
            WOp::W(b) => {
                // pieces of even length go through `write_vectored` (two slices), the rest of the
                // piece through `write_all`: the same bytes in the same order
                if b.len() >= 2 && b.len() % 2 == 0 {
                    let (x, y) = b.split_at(b.len() / 2);
                    let n = w.write_vectored(&[std::io::IoSlice::new(x), std::io::IoSlice::new(y)]).unwrap_or(b.len());
                    let _ = w.write_all(&b[std::cmp::min(n, b.len())..]);
                } else {
                    let _ = w.write_all(b);
                }
            }
            WOp::F => {
                let _ = w.flush();
            }
        }
    }
}

fn app_thread(server: std::sync::Arc<Server>, script: Vec<Action>, tx: mpsc::Sender<Ev>) {
    let mut idx = 0usize;
    loop {
        let mut rq = match server.recv() {
            Ok(rq) => rq,
            Err(_) => return,
        };
        if rq.url().starts_with("/gone/") {
            // a client of the RST prelude, not part of the conversation under test
            let _ = tx.send(Ev::Gone(rq.remote_addr().is_some()));
            let _ = rq.respond(Response::from_string("gone"));
            continue;
        }
        let a = if script.is_empty() {
            Action { as_reader: 0, read_total: 0, buf: 1, delay_ms: 0, fin: Finish::Drop, zero_read: false }
        } else {
            script[std::cmp::min(idx, script.len() - 1)].clone()
        };
        idx += 1;
        let mkind = {
            let d = format!("{:?}", rq.method());
            d.split('(').next().unwrap_or("").to_string()
        };
        let _ = tx.send(Ev::Head {
            method: rq.method().as_str().as_bytes().to_vec(),
            mkind,
            url: rq.url().as_bytes().to_vec(),
            ver: (rq.http_version().0, rq.http_version().1),
            hdrs: rq.headers().iter().map(|h| (h.field.as_str().as_bytes().to_vec(), h.value.as_bytes().to_vec())).collect(),
            len: rq.body_length(),
            addr: match rq.remote_addr() {
                Some(a) => format!("tcp:{}", a.port()),
                None => "none".into(),
            },
        });
        let hdrs_at_receipt: Vec<(Vec<u8>, Vec<u8>)> = rq.headers().iter().map(|h| (h.field.as_str().as_bytes().to_vec(), h.value.as_bytes().to_vec())).collect();
        let len_at_receipt = rq.body_length();
        // the handler proper; a panic in it is caught here, as a worker thread would
        let tx2 = tx.clone();
        let res = std::panic::catch_unwind(std::panic::AssertUnwindSafe(move || {
            let mut end: &'static str = "none";
            // an upgrade request's body is the rest of the connection: it can be read through
            // as_reader() before upgrading, or through the stream `upgrade()` returns — same bytes
            let via_stream = matches!(a.fin, Finish::Upgrade(..)) && a.as_reader == 1 && a.buf % 2 == 0 && !a.zero_read;
            if a.delay_ms >= PRE_DELAY {
                // a busy application: it asks for the body only a while after it got the request
                std::thread::sleep(Duration::from_millis(a.delay_ms - PRE_DELAY));
            }
            for _ in 1..a.as_reader {
                let _ = rq.as_reader();
            }
            if a.as_reader > 0 && !via_stream {
                let reader = rq.as_reader();
                if a.zero_read {
                    let _ = reader.read(&mut []);
                }
                let mut got = 0usize;
                if a.buf == READ_TO_END {
                    // one `read_to_end` instead of a loop of reads
                    let mut all = vec![];
                    let r = reader.read_to_end(&mut all);
                    let _ = tx2.send(Ev::Data(all));
                    end = if r.is_ok() { "eof" } else { "err" };
                    got = a.read_total;
                }
                let mut buf = vec![0u8; if a.buf == READ_TO_END { 1 } else { std::cmp::max(1, a.buf) }];
                while got < a.read_total {
                    let want = std::cmp::min(buf.len(), a.read_total - got);
                    match read_some(reader, &mut buf, want) {
                        Ok(0) => {
                            end = "eof";
                            break;
                        }
                        Ok(n) => {
                            got += n;
                            let _ = tx2.send(Ev::Data(buf[..n].to_vec()));
                        }
                        Err(_) => {
                            end = "err";
                            break;
                        }
                    }
                }
            }
            if !via_stream {
                let _ = tx2.send(Ev::ReadEnd(end));
            }
            // what the request says about itself does not change while it is being handled
            let hdrs_now: Vec<(Vec<u8>, Vec<u8>)> = rq.headers().iter().map(|h| (h.field.as_str().as_bytes().to_vec(), h.value.as_bytes().to_vec())).collect();
            let stable = hdrs_now == hdrs_at_receipt && rq.body_length() == len_at_receipt;
            if a.delay_ms > 0 && a.delay_ms < PRE_DELAY {
                std::thread::sleep(Duration::from_millis(a.delay_ms));
            }
            stable && match &a.fin {
                Finish::Respond(r) => rq.respond(mk_response(r)).is_ok(),
                Finish::RespondFail(r, n) => {
                    // an error caused by the application's own reader is not a client fault: any result is fine
                    let _ = rq.respond(mk_failing_response(r, *n));
                    true
                }
                Finish::Drop => {
                    drop(rq);
                    true
                }
                Finish::Panic => {
                    let _hold = rq;
                    panic!("handler panics while holding the request");
                }
                Finish::Writer(ops) => {
                    let mut w = rq.into_writer();
                    do_ops(&mut *w, ops);
                    true
                }
                Finish::Upgrade(p, r, ops) => {
                    let proto = String::from_utf8_lossy(p).to_string();
                    let mut s = rq.upgrade(&proto, mk_response(r));
                    do_ops(&mut *s, ops);
                    if via_stream {
                        let mut got = 0usize;
                        let mut buf = vec![0u8; std::cmp::max(1, a.buf)];
                        while got < a.read_total {
                            let want = std::cmp::min(buf.len(), a.read_total - got);
                            match s.read(&mut buf[..want]) {
                                Ok(0) => {
                                    end = "eof";
                                    break;
                                }
                                Ok(n) => {
                                    got += n;
                                    let _ = tx2.send(Ev::Data(buf[..n].to_vec()));
                                }
                                Err(_) => {
                                    end = "err";
                                    break;
                                }
                            }
                        }
                        let _ = tx2.send(Ev::ReadEnd(end));
                    }
                    true
                }
            }
        }));
        let _ = tx.send(Ev::Done(res.unwrap_or(true)));
    }
}

/// Replace the value of every `Date:` header line in a response stream by the fixed model date,
/// after checking it is a valid HTTP-date close to now.
pub fn mask_dates(wire: &[u8]) -> (Vec<u8>, bool) {
    const FIXED: &[u8] = b"Thu, 01 Jan 1970 00:00:00 GMT";
    let pat = b"\r\nDate: ";
    let mut out = Vec::with_capacity(wire.len());
    let mut ok = true;
    let mut i = 0;
    while i < wire.len() {
        if wire[i..].starts_with(pat) && i + pat.len() + 29 + 2 <= wire.len() && &wire[i + pat.len() + 29..i + pat.len() + 31] == b"\r\n" {
            let v = &wire[i + pat.len()..i + pat.len() + 29];
            let good = std::str::from_utf8(v)
                .ok()
                .and_then(|s| httpdate::parse_http_date(s).ok())
                .map(|t| {
                    let now = std::time::SystemTime::now();
                    t <= now + Duration::from_secs(2) && t + Duration::from_secs(30) >= now
                })
                .unwrap_or(false);
            if good {
                out.extend_from_slice(pat);
                out.extend_from_slice(FIXED);
                i += pat.len() + 29;
                continue;
            } else {
                ok = false;
            }
        }
        out.push(wire[i]);
        i += 1;
    }
    (out, ok)
}

enum Client {
    Tcp(TcpStream),
    Unix(std::os::unix::net::UnixStream),
}

impl Client {
    fn try_clone(&self) -> Client {
        match self {
            Client::Tcp(s) => Client::Tcp(s.try_clone().unwrap()),
            Client::Unix(s) => Client::Unix(s.try_clone().unwrap()),
        }
    }
    fn write_all(&mut self, b: &[u8]) -> std::io::Result<()> {
        match self {
            Client::Tcp(s) => s.write_all(b),
            Client::Unix(s) => s.write_all(b),
        }
    }
    fn read(&mut self, b: &mut [u8]) -> std::io::Result<usize> {
        match self {
            Client::Tcp(s) => s.read(b),
            Client::Unix(s) => s.read(b),
        }
    }
    fn shutdown_write(&self) {
        match self {
            Client::Tcp(s) => {
                let _ = s.shutdown(Shutdown::Write);
            }
            Client::Unix(s) => {
                let _ = s.shutdown(Shutdown::Write);
            }
        }
    }
    fn set_read_timeout(&self, d: Duration) {
        match self {
            Client::Tcp(s) => {
                let _ = s.set_read_timeout(Some(d));
            }
            Client::Unix(s) => {
                let _ = s.set_read_timeout(Some(d));
            }
        }
    }
    fn local_port(&self) -> String {
        match self {
            Client::Tcp(s) => s.local_addr().map(|a| format!("tcp:{}", a.port())).unwrap_or_default(),
            Client::Unix(_) => "none".into(),
        }
    }
}

pub struct Timing {
    pub quiet_ms: u64,
    pub deadline_ms: u64,
    pub seg_pause_us: u64,
}

impl Default for Timing {
    fn default() -> Self {
        Timing { quiet_ms: 250, deadline_ms: 12000, seg_pause_us: 1500 }
    }
}

/// Runs one case and returns the protocol line (case recipe + observations).
/// number of clients that, ahead of the next TCP case, connect to its server, send one complete
/// request and abort the connection at once (RST); consumed by `run_case`
pub static RST_FIRST: std::sync::atomic::AtomicUsize = std::sync::atomic::AtomicUsize::new(0);

#[repr(C)]
struct Linger {
    l_onoff: i32,
    l_linger: i32,
}

extern "C" {
    fn setsockopt(fd: i32, level: i32, name: i32, val: *const Linger, len: u32) -> i32;
}

/// SO_LINGER with a zero timeout: `close` sends RST instead of FIN (Linux constants)
pub fn abort_on_close(s: &TcpStream) {
    use std::os::unix::io::AsRawFd;
    let l = Linger { l_onoff: 1, l_linger: 0 };
    unsafe {
        setsockopt(s.as_raw_fd(), 1, 13, &l, std::mem::size_of::<Linger>() as u32);
    }
}

pub fn run_case(id: u64, c: &ConnCase, tmpdir: &str, tm: &Timing) -> String {
    let sock_path = format!("{}/conn-{}-{}.sock", tmpdir, std::process::id(), id);
    let server = if c.unix {
        let _ = std::fs::remove_file(&sock_path);
        Server::http_unix(std::path::Path::new(&sock_path)).expect("unix server")
    } else {
        Server::http("127.0.0.1:0").expect("tcp server")
    };
    let server = std::sync::Arc::new(server);
    let rst_first = RST_FIRST.swap(0, std::sync::atomic::Ordering::SeqCst);
    if rst_first > 0 && !c.unix {
        let ip = server.server_addr().to_ip().unwrap();
        for k in 0..rst_first {
            if let Ok(mut s) = TcpStream::connect(ip) {
                let _ = write!(s, "GET /gone/{} HTTP/1.1\r\nHost: gone\r\n\r\n", k);
                abort_on_close(&s);
                drop(s);
            }
        }
        std::thread::sleep(Duration::from_millis(30));
    }
    let (tx, rx) = mpsc::channel();
    let app = {
        let s = server.clone();
        let sc = c.script.clone();
        std::thread::spawn(move || app_thread(s, sc, tx))
    };
    let mut client = if c.unix {
        Client::Unix(std::os::unix::net::UnixStream::connect(&sock_path).expect("connect unix"))
    } else {
        let s = TcpStream::connect(server.server_addr().to_ip().unwrap()).expect("connect");
        let _ = s.set_nodelay(true);
        Client::Tcp(s)
    };
    let local = client.local_port();
    // reader side of the client: accumulate everything the server sends
    let (wtx, wrx) = mpsc::channel::<Option<Vec<u8>>>();
    let mut rclient = client.try_clone();
    rclient.set_read_timeout(Duration::from_millis(25));
    let stop = std::sync::Arc::new(std::sync::atomic::AtomicBool::new(false));
    let stop2 = stop.clone();
    let reader = std::thread::spawn(move || {
        let mut buf = [0u8; 65536];
        loop {
            match rclient.read(&mut buf) {
                Ok(0) => {
                    let _ = wtx.send(None);
                    return;
                }
                Ok(n) => {
                    let _ = wtx.send(Some(buf[..n].to_vec()));
                }
                Err(e) if e.kind() == std::io::ErrorKind::WouldBlock || e.kind() == std::io::ErrorKind::TimedOut => {
                    if stop2.load(std::sync::atomic::Ordering::Relaxed) {
                        return;
                    }
                }
                Err(_) => {
                    // reset: the peer is gone
                    let _ = wtx.send(None);
                    return;
                }
            }
        }
    });
    let start = Instant::now();
    let mut wire: Vec<u8> = vec![];
    let mut eof = false;
    let pump = |wire: &mut Vec<u8>, eof: &mut bool, wait: Duration| -> bool {
        // returns true if something arrived
        match wrx.recv_timeout(wait) {
            Ok(Some(b)) => {
                wire.extend_from_slice(&b);
                true
            }
            Ok(None) => {
                *eof = true;
                true
            }
            Err(_) => false,
        }
    };
    // --- send
    let mut cuts: Vec<usize> = c.segs.iter().cloned().filter(|&k| k > 0 && k < c.bytes.len()).collect();
    if let Some(h) = c.hold {
        if h > 0 && h < c.bytes.len() {
            cuts.push(h);
        }
    }
    cuts.sort();
    cuts.dedup();
    cuts.push(c.bytes.len());
    let mut pos = 0;
    let mut write_failed = false;
    let mut holdwire: Option<Vec<u8>> = None;
    for &cut in &cuts {
        if cut > pos && client.write_all(&c.bytes[pos..cut]).is_err() {
            write_failed = true;
            break;
        }
        pos = cut;
        if Some(cut) == c.hold {
            // wait until the server said something (100 Continue or a final response), at most 1 s
            // (longer when the application is known to take its time before asking for the body)
            let t0 = Instant::now();
            let pre = c.script.first().map_or(0, |a| if a.delay_ms >= PRE_DELAY { a.delay_ms - PRE_DELAY } else { 0 });
            while wire.is_empty() && !eof && t0.elapsed() < Duration::from_millis(1000 + pre * 2) {
                pump(&mut wire, &mut eof, Duration::from_millis(20));
            }
            // let the rest of that burst arrive, then remember what the client had at this point
            while pump(&mut wire, &mut eof, Duration::from_millis(40)) {}
            holdwire = Some(wire.clone());
        } else if cut < c.bytes.len() {
            std::thread::sleep(Duration::from_micros(tm.seg_pause_us));
        }
    }
    let _ = write_failed;
    if c.mode == Mode::HalfClose {
        client.shutdown_write();
    }
    // --- receive until EOF, or until quiet (open mode), or the deadline
    let mut last_activity = Instant::now();
    loop {
        if eof {
            break;
        }
        if start.elapsed() > Duration::from_millis(tm.deadline_ms) {
            break;
        }
        let got = pump(&mut wire, &mut eof, Duration::from_millis(10));
        if got {
            last_activity = Instant::now();
        } else if c.mode == Mode::Open && last_activity.elapsed() > Duration::from_millis(if wire.is_empty() { std::cmp::max(tm.quiet_ms * 8, 2000) } else { tm.quiet_ms }) {
            // (a client that has heard nothing at all yet waits longer: on a loaded machine the
            // first answer can take more than the quiet period)
            break;
        } else if c.mode == Mode::HalfClose && last_activity.elapsed() > Duration::from_millis(std::cmp::max(tm.quiet_ms * 8, 4000)) {
            // nothing for a long while although we half-closed: the server is stuck
            break;
        }
    }
    // --- collect the application's log
    server.unblock();
    let mut delivered: Vec<String> = vec![];
    let mut results: Vec<String> = vec![];
    let mut cur: Option<(String, Vec<u8>, &'static str)> = None; // head fields, body, readend
    let mut hang = false;
    let (mut gone, mut gone_noaddr) = (0usize, 0usize);
    let t_collect = Instant::now();
    let mut app_done = false;
    loop {
        match rx.recv_timeout(Duration::from_millis(20)) {
            Ok(Ev::Head { method, mkind, url, ver, hdrs, len, addr }) => {
                if let Some((h, b, e)) = cur.take() {
                    delivered.push(format!("{},{},{}", h, hex(&b), e));
                }
                let addr_class = if addr == "none" { "none".to_string() } else if addr == local { "tcp".to_string() } else { format!("other:{}", addr) };
                cur = Some((
                    format!("{},{},{},{}.{},{},{},{}", hex(&method), mkind, hex(&url), ver.0, ver.1, hdrs_enc(&hdrs), opt(&len), addr_class),
                    vec![],
                    "pending",
                ));
            }
            Ok(Ev::Data(d)) => {
                if let Some(c) = cur.as_mut() {
                    c.1.extend_from_slice(&d);
                }
            }
            Ok(Ev::ReadEnd(e)) => {
                if let Some(c) = cur.as_mut() {
                    c.2 = e;
                }
            }
            Ok(Ev::Done(ok)) => results.push(if ok { "ok".into() } else { "err".into() }),
            Ok(Ev::Gone(with_addr)) => {
                gone += 1;
                if !with_addr {
                    gone_noaddr += 1;
                }
            }
            Err(mpsc::RecvTimeoutError::Disconnected) => {
                app_done = true;
                break;
            }
            Err(mpsc::RecvTimeoutError::Timeout) => {
                // generous: it only costs time when the application really hangs, and a loaded
                // machine must not turn a slow thread into a reported hang
                if t_collect.elapsed() > Duration::from_millis(3000) {
                    hang = true;
                    break;
                }
            }
        }
    }
    if let Some((h, b, e)) = cur.take() {
        delivered.push(format!("{},{},{}", h, hex(&b), e));
    }
    // closing the client unblocks whatever is still reading from it
    stop.store(true, std::sync::atomic::Ordering::Relaxed);
    drop(client);
    let _ = reader.join();
    if app_done {
        let _ = app.join();
    }
    drop(server);
    if c.unix {
        let _ = std::fs::remove_file(&sock_path);
    }
    let (masked, dates_ok) = mask_dates(&wire);
    let holdfield = match &holdwire {
        Some(h) => format!(" holdwire={}", hex(&mask_dates(h).0)),
        None => String::new(),
    };
    format!(
        "conn id={} bytes={} mode={} hold={} segs={} unix={} script={} {} | delivered={} wire={} eof={} results={} hang={} dates={}{}{}",
        id,
        hex(&c.bytes),
        if c.mode == Mode::Open { "open" } else { "halfclose" },
        opt(&c.hold),
        if c.segs.is_empty() { "none".to_string() } else { c.segs.iter().map(|s| s.to_string()).collect::<Vec<_>>().join(",") },
        if c.unix { 1 } else { 0 },
        c.script.iter().map(action_enc).collect::<Vec<_>>().join("|"),
        c.intent,
        delivered.join("|"),
        hex(&masked),
        if eof { 1 } else { 0 },
        results.join(","),
        if hang { 1 } else { 0 },
        if dates_ok { "ok" } else { "bad" },
        holdfield,
        if rst_first > 0 { format!(" rst={} gone={} gone_noaddr={}", rst_first, gone, gone_noaddr) } else { String::new() }
    )
}
