// Scenario driver for `SequentialWriterBuilder` / `SequentialWriter` (leaf module of the generated
// copy) under verif_rt: n writers over one `BufWriter(1024)`, each used by its own thread
// (writes of various sizes, flushes, sleeps) and then dropped; some are dropped untouched.
use super::*;
use sequential::SequentialWriterBuilder;
use std::io::Write as _;
use verif_harness::hex;

#[derive(Clone, Debug)]
enum SOp {
    W(Vec<u8>),
    F,
    Sleep(u64),
    /// the thread panics while it owns the writer: the writer is dropped during unwinding
    Panic,
}

/// logs the drop of writer `i` once the writer itself is gone, also when the thread unwinds
struct DropLog(usize);
impl Drop for DropLog {
    fn drop(&mut self) {
        sched::log(&format!("dropped {}", self.0));
    }
}

struct LogWriter(Arc<StdMutex<Vec<u8>>>);

impl std::io::Write for LogWriter {
    fn write(&mut self, buf: &[u8]) -> std::io::Result<usize> {
        sched::log(&format!("sockwrite {}", buf.len()));
        self.0.lock().unwrap().extend_from_slice(buf);
        Ok(buf.len())
    }
    fn flush(&mut self) -> std::io::Result<()> {
        Ok(())
    }
}

pub fn run(id: usize, rng: &mut Rng) -> String {
    let n = rng.range(2, 5);
    let mut progs: Vec<Vec<SOp>> = vec![];
    for i in 0..n {
        let mut ops = vec![];
        let k = *rng.pick(&[0usize, 0, 1, 2, 3, 4]);
        for j in 0..k {
            match rng.below(6) {
                0 => ops.push(SOp::F),
                1 => ops.push(SOp::Sleep(*rng.pick(&[1u64, 50, 1000]))),
                _ => {
                    let len = *rng.pick(&[1usize, 5, 100, 1023, 1024, 1025, 3000]);
                    ops.push(SOp::W((0..len).map(|x| b'a' + ((i * 7 + j + x) % 26) as u8).collect()));
                }
            }
        }
        if rng.chance(1, 2) {
            ops.push(SOp::F);
        }
        if rng.chance(1, 6) {
            ops.push(SOp::Panic);
        }
        progs.push(ops);
    }
    let cfg = Config { seed: rng.next(), p_timer: *rng.pick(&[0u64, 50]), p_stay: *rng.pick(&[0u64, 500]), ..Config::default() };
    let p2 = progs.clone();
    let ((sock, quiet), rep) = sched::run(&cfg, move || {
        let sink = Arc::new(StdMutex::new(Vec::new()));
        let mut builder = SequentialWriterBuilder::new(std::io::BufWriter::with_capacity(1024, LogWriter(sink.clone())));
        let mut writers = vec![];
        for _ in 0..p2.len() {
            sched::log("issue");
            writers.push(builder.next().unwrap());
        }
        drop(builder);
        for (i, (w, ops)) in writers.into_iter().zip(p2.into_iter()).enumerate() {
            let sink2 = sink.clone();
            verif_rt::thread::spawn_named(&format!("writer{}", i), move || {
                // declared first, dropped last: after `w`
                let _dl = DropLog(i);
                let mut w = w;
                for op in ops {
                    match op {
                        SOp::W(b) => {
                            sched::log(&format!("beginW {} {}", i, hex(&b)));
                            let _ = w.write_all(&b);
                        }
                        SOp::F => {
                            sched::log(&format!("beginF {}", i));
                            let _ = w.flush();
                            // what is on the socket right after the flush returned
                            sched::log(&format!("flushed {} {}", i, sink2.lock().unwrap().len()));
                        }
                        SOp::Sleep(us) => stdx::thread::sleep(Duration::from_micros(us)),
                        SOp::Panic => panic!("handler panics while holding writer {}", i),
                    }
                }
                drop(w);
            });
        }
        let quiet = sched::settle(60_000_000_000);
        let s = sink.lock().unwrap().clone();
        (s, quiet)
    });
    // ---- map the event log to labels of Lts.Seq
    let mut labels: Vec<String> = vec![];
    let mut pending: std::collections::HashMap<usize, String> = std::collections::HashMap::new();
    let mut in_flush: std::collections::HashSet<usize> = std::collections::HashSet::new();
    for e in &rep.events {
        let w: Vec<&str> = e.what.split(' ').collect();
        match w[0] {
            "issue" => labels.push("I".into()),
            "beginW" => {
                pending.insert(e.tid, format!("W{}:{}", w[1], w[2]));
            }
            "beginF" => {
                pending.insert(e.tid, format!("F{}", w[1]));
            }
            // write_all may call write several times: each locked call is one `write` label with
            // the bytes of that call; we only know the total, so a multi-call write is reported
            // as one label at its first lock (the BufWriter never returns a short count)
            "lock" if w.get(1).map_or(false, |s| s.starts_with("sequential.rs")) => {
                if let Some(l) = pending.remove(&e.tid) {
                    if l.starts_with('F') {
                        in_flush.insert(e.tid);
                    }
                    labels.push(l);
                }
            }
            // the socket writes a flush performs are the flush itself (the LTS's `flush` label moves
            // the whole buffer); what reached the socket is checked right after it (`C<n>`)
            "sockwrite" if in_flush.contains(&e.tid) => {}
            "flushed" => {
                in_flush.remove(&e.tid);
                labels.push(format!("C{}", w[2]));
            }
            "sockwrite" => labels.push(format!("S{}", w[1])),
            "dropped" => labels.push(format!("D{}", w[1])),
            _ => {}
        }
    }
    let progs_enc: Vec<String> = progs
        .iter()
        .map(|ops| {
            ops.iter()
                .map(|o| match o {
                    SOp::W(b) => format!("w{}", hex(b)),
                    SOp::F => "f".into(),
                    SOp::Sleep(u) => format!("s{}", u),
                    SOp::Panic => "x".into(),
                })
                .collect::<Vec<_>>()
                .join(".")
        })
        .collect();
    format!(
        "seq id={} seed={} progs={} | labels={} sock={} quiet={} aborted={}",
        id,
        cfg.seed,
        progs_enc.join("|"),
        labels.join(","),
        hex(&sock),
        if quiet { 1 } else { 0 },
        if rep.aborted { 1 } else { 0 }
    )
}
