// placeholder: sequential writers under the scheduler (filled in below)
use super::*;
pub fn run(id: usize, _rng: &mut Rng) -> String {
    format!("seq id={}", id)
}
