//! Shared pieces of the correspondence harness: one PRNG, hex, small helpers.
pub mod respgen;
pub mod connrun;
pub mod conngen;
pub mod srvrun;

/// splitmix64 — every random choice of a run derives from one state seeded by VERIF_SEED.
#[derive(Clone)]
pub struct Rng(pub u64);

impl Rng {
    pub fn new(seed: u64) -> Rng {
        Rng(seed ^ 0x9E37_79B9_7F4A_7C15)
    }
    pub fn next(&mut self) -> u64 {
        self.0 = self.0.wrapping_add(0x9E37_79B9_7F4A_7C15);
        let mut z = self.0;
        z = (z ^ (z >> 30)).wrapping_mul(0xBF58_476D_1CE4_E5B9);
        z = (z ^ (z >> 27)).wrapping_mul(0x94D0_49BB_1331_11EB);
        z ^ (z >> 31)
    }
    /// uniform in 0..n (n ≥ 1)
    pub fn below(&mut self, n: usize) -> usize {
        (self.next() % (n as u64)) as usize
    }
    pub fn range(&mut self, lo: usize, hi: usize) -> usize {
        lo + self.below(hi - lo + 1)
    }
    pub fn chance(&mut self, num: usize, den: usize) -> bool {
        self.below(den) < num
    }
    pub fn pick<'a, T>(&mut self, xs: &'a [T]) -> &'a T {
        &xs[self.below(xs.len())]
    }
    pub fn fork(&mut self) -> Rng {
        Rng(self.next())
    }
}

pub fn hex(bs: &[u8]) -> String {
    const D: &[u8; 16] = b"0123456789abcdef";
    let mut s = String::with_capacity(bs.len() * 2);
    for b in bs {
        s.push(D[(b >> 4) as usize] as char);
        s.push(D[(b & 15) as usize] as char);
    }
    s
}

pub fn unhex(s: &str) -> Vec<u8> {
    let b = s.as_bytes();
    let nib = |c: u8| -> u8 {
        match c {
            b'0'..=b'9' => c - b'0',
            b'a'..=b'f' => c - b'a' + 10,
            b'A'..=b'F' => c - b'A' + 10,
            _ => 0,
        }
    };
    b.chunks(2).filter(|c| c.len() == 2).map(|c| nib(c[0]) * 16 + nib(c[1])).collect()
}

pub fn seed_from_env() -> u64 {
    std::env::var("VERIF_SEED").ok().and_then(|s| s.parse().ok()).unwrap_or(20260927)
}

/// random letter-case variant of an ASCII name
pub fn recase(rng: &mut Rng, s: &str) -> String {
    match rng.below(4) {
        0 => s.to_string(),
        1 => s.to_ascii_lowercase(),
        2 => s.to_ascii_uppercase(),
        _ => s
            .chars()
            .map(|c| if rng.chance(1, 2) { c.to_ascii_uppercase() } else { c.to_ascii_lowercase() })
            .collect(),
    }
}
