// Scenario driver for the receive calls of the whole `Server` (generated copy) under verif_rt:
// every producer is a client connection sending requests `/r<v>` at chosen virtual times (or
// calling `Server::unblock`), consumers mix `recv` / `try_recv` / `recv_timeout`.  The request
// travels accept thread -> task pool -> connection thread -> `MessagesQueue` -> receiver: the
// same `queue` line as `ctl_queue` comes out, with anonymous pushes (`P:<w>`): which request a
// push carries is not visible from outside, the driver matches them up (`anon=1`).
// A second scenario shape is a burst of connections, more than the idle period of silence, then
// new connections (pool workers retire in between).
use super::*;
use ctl_queue::{COp, POp, Scenario};
use std::io::Write as _;
use tiny_http_rt::{Response, Server};

fn gen_burst(rng: &mut Rng) -> Scenario {
    let nb = *rng.pick(&[5usize, 6, 7, 8, 9, 12, 14]);
    let late = rng.range(1, 3);
    let mut prods = vec![];
    let mut next = 1u64;
    for p in 0..nb {
        let mut ops = vec![];
        if rng.chance(1, 2) {
            ops.push(POp::Sleep(*rng.pick(&[0u64, 100, 1_000])));
        }
        ops.push(POp::Push((p as u64 + 1) * 1000 + next));
        next += 1;
        // most connections of the burst end: their workers go idle and the surplus ones retire
        if rng.chance(3, 4) {
            ops.push(POp::Sleep(*rng.pick(&[1_000u64, 50_000])));
            ops.push(POp::Close);
        }
        prods.push(ops);
    }
    // connections that say nothing for a while (or ever): the others must not wait for them
    let silent = rng.below(6);
    for _ in 0..silent {
        let mut ops = vec![];
        if rng.chance(1, 2) {
            ops.push(POp::Sleep(*rng.pick(&[0u64, 50])));
        }
        ops.push(POp::Connect);
        // some of them leave in the middle of a request line
        let cut = rng.chance(1, 3);
        if cut {
            ops.push(POp::Partial);
        }
        ops.push(POp::Sleep(*rng.pick(&[2_000u64, 700_000, 7_000_000])));
        if !cut && rng.chance(1, 2) {
            ops.push(POp::Push(900_000 + next));
            next += 1;
        }
        if cut {
            ops.push(POp::Close);
        }
        if rng.chance(1, 2) {
            ops.push(POp::Close);
        }
        prods.insert(rng.below(prods.len() + 1), ops);
    }
    for p in 0..late {
        // longer than the pool's idle period (5 s): the surplus workers of the burst have retired
        let d = *rng.pick(&[5_200_000u64, 6_500_000, 12_000_000]);
        let mut ops = vec![POp::Sleep(d)];
        let k = rng.range(1, 3);
        for _ in 0..k {
            ops.push(POp::Push((nb as u64 + p as u64 + 1) * 1000 + next));
            next += 1;
        }
        prods.push(ops);
    }
    let total = (next - 1) as usize;
    if rng.chance(1, 6) {
        // an application that is busy for a while and then only polls: more requests are pending at
        // once than any small fixed number, and nothing but `try_recv` / `recv_timeout` takes them
        let mut ops = vec![COp::Sleep(500_000)];
        let poll = if rng.chance(1, 2) { COp::Try } else { COp::Timeout(1_000) };
        for _ in 0..total + 6 {
            ops.push(poll.clone());
            ops.push(COp::Sleep(*rng.pick(&[100u64, 1_000])));
        }
        return Scenario { prods, cons: vec![ops] };
    }
    let nc = rng.range(1, 3);
    let mut cons = vec![];
    for _ in 0..nc {
        let mut ops = vec![];
        for _ in 0..total {
            ops.push(if rng.chance(1, 4) { COp::Timeout(20_000_000) } else { COp::Pop });
        }
        cons.push(ops);
    }
    Scenario { prods, cons }
}

fn id_of(rq: &tiny_http_rt::Request) -> Option<u64> {
    rq.url().strip_prefix("/r").and_then(|s| s.parse().ok())
}

/// The same run seen by the connection thread pool: labels of `Lts.Pool`.  A dispatch is the
/// accept thread (`lib.rs:…`) taking the pool's lock and then either creating a worker or notifying
/// one; `finish` (a connection's task ended) is not visible and is supplied by the acceptor before
/// the worker's next locked block.
pub fn pool_labels(rep: &sched::Report) -> String {
    use std::collections::HashMap;
    let mut widx: HashMap<usize, usize> = HashMap::new();
    let mut accept: Option<usize> = None;
    let mut n = 0;
    for (tid, (name, _)) in rep.threads.iter().enumerate() {
        if name.starts_with("task_pool.rs") {
            widx.insert(tid, n);
            n += 1;
        } else if name.starts_with("lib.rs") && accept.is_none() {
            accept = Some(tid);
        }
    }
    let mut out: Vec<String> = vec![];
    let mut last_t = 0u64;
    let mut next_k = 0usize;
    let mut cur: Option<usize> = None;
    let mut in_wait: HashMap<usize, bool> = HashMap::new();
    let mut emit = |out: &mut Vec<String>, t: u64, l: String, last_t: &mut u64| {
        if t > *last_t {
            out.push(format!("+{}", t - *last_t));
            *last_t = t;
        }
        out.push(l);
    };
    for e in &rep.events {
        if e.what == "drain" {
            break;
        }
        let w: Vec<&str> = e.what.split(' ').collect();
        let pool_site = |i: usize| w.get(i).map_or(false, |s| s.starts_with("task_pool.rs"));
        let is_accept = Some(e.tid) == accept;
        match w[0] {
            "lock" if pool_site(1) && is_accept => {
                cur = Some(next_k);
                next_k += 1;
            }
            "spawn" if is_accept && w.get(2).map_or(false, |s| s.starts_with("task_pool.rs")) => {
                if let Some(k) = cur.take() {
                    emit(&mut out, e.t, format!("D{}:n", k), &mut last_t);
                }
            }
            "notify_one" if pool_site(1) && is_accept => {
                if let Some(k) = cur.take() {
                    let woke = match w.get(2) {
                        Some(x) if x.starts_with('t') => {
                            let tid: usize = x[1..].parse().unwrap_or(usize::MAX);
                            in_wait.insert(tid, false);
                            widx.get(&tid).map(|c| c.to_string()).unwrap_or_else(|| "?".into())
                        }
                        _ => "-".to_string(),
                    };
                    emit(&mut out, e.t, format!("D{}:q{}", k, woke), &mut last_t);
                }
            }
            "begin" => {
                if let Some(&i) = widx.get(&e.tid) {
                    emit(&mut out, e.t, format!("B{}", i), &mut last_t);
                }
            }
            "lock" if pool_site(1) => {
                if let Some(&i) = widx.get(&e.tid) {
                    in_wait.insert(e.tid, false);
                    emit(&mut out, e.t, format!("L{}", i), &mut last_t);
                }
            }
            "wait" if pool_site(1) => {
                in_wait.insert(e.tid, true);
            }
            "timer" => {
                if let Some(&i) = widx.get(&e.tid) {
                    if in_wait.get(&e.tid).cloned().unwrap_or(false) {
                        in_wait.insert(e.tid, false);
                        emit(&mut out, e.t, format!("T{}", i), &mut last_t);
                    }
                }
            }
            "spurious" => {
                if let Some(&i) = widx.get(&e.tid) {
                    if in_wait.get(&e.tid).cloned().unwrap_or(false) {
                        in_wait.insert(e.tid, false);
                        emit(&mut out, e.t, format!("W{}", i), &mut last_t);
                    }
                }
            }
            _ => {}
        }
    }
    out.join(",")
}

/// The same run as ONE execution of `Lts.Whole` (pool x queue x connections): accepts, arrivals of
/// complete requests, closes, pushes by the worker that serves the connection, the pool's and
/// the queue's own steps.  A request written (or a close) before the server has accepted the
/// connection sits in the socket: it is reported right after the accept.
pub fn whole_labels(rep: &sched::Report) -> String {
    use std::collections::HashMap;
    let mut widx: HashMap<usize, usize> = HashMap::new();
    let mut cons_of: HashMap<usize, usize> = HashMap::new();
    let mut prod_of: HashMap<usize, usize> = HashMap::new();
    let mut accept: Option<usize> = None;
    let mut n = 0;
    for (tid, (name, _)) in rep.threads.iter().enumerate() {
        if name.starts_with("task_pool.rs") {
            widx.insert(tid, n);
            n += 1;
        } else if name.starts_with("lib.rs") && accept.is_none() {
            accept = Some(tid);
        } else if let Some(r) = name.strip_prefix("cons") {
            if let Ok(i) = r.parse::<usize>() {
                cons_of.insert(tid, i);
            }
        } else if let Some(r) = name.strip_prefix("prod") {
            if let Ok(i) = r.parse::<usize>() {
                prod_of.insert(tid, i);
            }
        }
    }
    let mut out: Vec<String> = vec![];
    let mut last_t = 0u64;
    let mut conn_of_prod: HashMap<usize, usize> = HashMap::new();
    let mut next_conn = 0usize;
    let mut accepted = 0usize;
    let mut held: Vec<(usize, String)> = vec![]; // (connection, label) waiting for the accept
    let mut dispatching = false;
    let mut unblocking: HashMap<usize, bool> = HashMap::new();
    let mut in_wait: HashMap<usize, bool> = HashMap::new();
    let mut emit = |out: &mut Vec<String>, t: u64, l: String, last_t: &mut u64| {
        if t > *last_t {
            out.push(format!("+{}", t - *last_t));
            *last_t = t;
        }
        out.push(l);
    };
    for e in &rep.events {
        if e.what == "drain" {
            break;
        }
        let w: Vec<&str> = e.what.split(' ').collect();
        let pool_site = |i: usize| w.get(i).map_or(false, |s| s.starts_with("task_pool.rs"));
        let queue_site = |i: usize| w.get(i).map_or(false, |s| s.starts_with("messages_queue.rs"));
        let is_accept = Some(e.tid) == accept;
        let woke_of = |x: Option<&&str>, m: &HashMap<usize, usize>| -> String {
            match x {
                Some(x) if x.starts_with('t') => {
                    let tid: usize = x[1..].parse().unwrap_or(usize::MAX);
                    m.get(&tid).map(|c| c.to_string()).unwrap_or_else(|| "?".into())
                }
                _ => "-".to_string(),
            }
        };
        match w[0] {
            "connected" => {
                if let Some(&p) = prod_of.get(&e.tid) {
                    conn_of_prod.insert(p, next_conn);
                    next_conn += 1;
                }
            }
            "send" | "closed" => {
                if let Some(k) = prod_of.get(&e.tid).and_then(|p| conn_of_prod.get(p)).cloned() {
                    let l = if w[0] == "send" { format!("R{}:{}", k, w[1]) } else { format!("C{}", k) };
                    if k < accepted {
                        emit(&mut out, e.t, l, &mut last_t);
                    } else {
                        held.push((k, l));
                    }
                }
            }
            "unblock" => {
                unblocking.insert(e.tid, true);
            }
            "lock" if pool_site(1) && is_accept => dispatching = true,
            "spawn" | "notify_one" if is_accept && dispatching && (pool_site(1) || w.get(2).map_or(false, |s| s.starts_with("task_pool.rs"))) => {
                dispatching = false;
                let l = if w[0] == "spawn" {
                    "A:n".to_string()
                } else {
                    if let Some(x) = w.get(2) {
                        if x.starts_with('t') {
                            if let Ok(tid) = x[1..].parse::<usize>() {
                                in_wait.insert(tid, false);
                            }
                        }
                    }
                    format!("A:q{}", woke_of(w.get(2), &widx))
                };
                emit(&mut out, e.t, l, &mut last_t);
                let k = accepted;
                accepted += 1;
                let (now, later): (Vec<_>, Vec<_>) = held.drain(..).partition(|(c, _)| *c == k);
                held = later;
                for (_, l) in now {
                    emit(&mut out, e.t, l, &mut last_t);
                }
            }
            "begin" => {
                if let Some(&i) = widx.get(&e.tid) {
                    emit(&mut out, e.t, format!("pB{}", i), &mut last_t);
                }
            }
            "lock" if pool_site(1) => {
                if let Some(&i) = widx.get(&e.tid) {
                    in_wait.insert(e.tid, false);
                    emit(&mut out, e.t, format!("pL{}", i), &mut last_t);
                }
            }
            "lock" if queue_site(1) => {
                if let Some(&c) = cons_of.get(&e.tid) {
                    in_wait.insert(e.tid, false);
                    emit(&mut out, e.t, format!("qL{}", c), &mut last_t);
                }
            }
            "call" => {
                if let Some(&c) = cons_of.get(&e.tid) {
                    emit(&mut out, e.t, format!("qc{}:{}", c, w[1]), &mut last_t);
                }
            }
            "wait" if pool_site(1) || queue_site(1) => {
                in_wait.insert(e.tid, true);
            }
            "notify_one" if queue_site(1) => {
                if let Some(x) = w.get(2) {
                    if x.starts_with('t') {
                        if let Ok(tid) = x[1..].parse::<usize>() {
                            in_wait.insert(tid, false);
                        }
                    }
                }
                let woke = woke_of(w.get(2), &cons_of);
                if unblocking.remove(&e.tid).is_some() {
                    emit(&mut out, e.t, format!("qU:{}", woke), &mut last_t);
                } else if let Some(&i) = widx.get(&e.tid) {
                    emit(&mut out, e.t, format!("P{}:{}", i, woke), &mut last_t);
                }
            }
            "timer" => {
                if in_wait.get(&e.tid).cloned().unwrap_or(false) {
                    in_wait.insert(e.tid, false);
                    if let Some(&i) = widx.get(&e.tid) {
                        emit(&mut out, e.t, format!("pT{}", i), &mut last_t);
                    } else if let Some(&c) = cons_of.get(&e.tid) {
                        emit(&mut out, e.t, format!("qT{}", c), &mut last_t);
                    }
                }
            }
            "spurious" => {
                if in_wait.get(&e.tid).cloned().unwrap_or(false) {
                    in_wait.insert(e.tid, false);
                    if let Some(&i) = widx.get(&e.tid) {
                        emit(&mut out, e.t, format!("pW{}", i), &mut last_t);
                    } else if let Some(&c) = cons_of.get(&e.tid) {
                        emit(&mut out, e.t, format!("qS{}", c), &mut last_t);
                    }
                }
            }
            _ => {}
        }
    }
    out.join(",")
}

pub fn run(id: usize, rng: &mut Rng) -> String {
    run_kind(id, rng, false)
}

/// the pool's view of the same scenarios (`srvp`)
pub fn run_pool(id: usize, rng: &mut Rng) -> String {
    run_kind(id, rng, true)
}

fn run_kind(id: usize, rng: &mut Rng, pool_view: bool) -> String {
    let burst = rng.chance(1, 4) || (pool_view && rng.chance(1, 2));
    let sc = if burst { gen_burst(rng) } else { ctl_queue::gen(rng) };
    let cfg = Config { seed: rng.next(), p_timer: *rng.pick(&[0u64, 0, 30, 200]), p_spurious: *rng.pick(&[0u64, 0, 0, 40, 200]), p_preempt: *rng.pick(&[0u64, 0, 0, 100, 400]), max_steps: 400_000, ..Config::default() };
    let hist: Arc<StdMutex<Vec<Vec<String>>>> = Arc::new(StdMutex::new(sc.cons.iter().map(|_| vec![]).collect()));
    let h2 = hist.clone();
    let prods = sc.prods.clone();
    let cons = sc.cons.clone();
    let n_unblock: usize = sc.prods.iter().map(|p| p.iter().filter(|o| matches!(o, POp::Unblock)).count()).sum();
    let ((left, blocked, quiet, live_end), rep) = sched::run(&cfg, move || {
        let server = Arc::new(Server::http("127.0.0.1:0").expect("server"));
        let addr = server.server_addr().to_ip().unwrap();
        // connections stay open until the end of the scenario
        let keep: Arc<StdMutex<Vec<verif_rt::net::TcpStream>>> = Arc::new(StdMutex::new(vec![]));
        for (ci, ops) in cons.iter().enumerate() {
            let server = server.clone();
            let ops = ops.clone();
            let h = h2.clone();
            verif_rt::thread::spawn_named(&format!("cons{}", ci), move || {
                for op in ops {
                    let t0 = sched::now_ns();
                    let (name, res): (String, Option<(Option<u64>, u64, Option<tiny_http_rt::Request>)>) = match op {
                        COp::Pop => {
                            sched::log("call pop");
                            h.lock().unwrap()[ci].push(format!("pop:{}:-:blocked", t0));
                            // the two blocking forms: `recv()` and the iterator (which is `recv().ok()`)
                            let r = if (t0 / 1000 + ci as u64) % 2 == 0 { server.recv().ok() } else { server.incoming_requests().next() };
                            ("pop".into(), Some(finish(r)))
                        }
                        COp::Try => {
                            sched::log("call try");
                            h.lock().unwrap()[ci].push(format!("try:{}:-:blocked", t0));
                            let r = server.try_recv();
                            ("try".into(), Some(finish(r.ok().flatten())))
                        }
                        COp::Timeout(t) => {
                            sched::log(&format!("call to{}", t));
                            h.lock().unwrap()[ci].push(format!("to{}:{}:-:blocked", t, t0));
                            let r = server.recv_timeout(ctl_queue::dur_of(t));
                            (format!("to{}", t), Some(finish(r.ok().flatten())))
                        }
                        COp::Sleep(d) => {
                            stdx::thread::sleep(Duration::from_micros(d));
                            ("s".into(), None)
                        }
                    };
                    if let Some((v, t1, rq)) = res {
                        {
                            let mut g = h.lock().unwrap();
                            g[ci].pop();
                            g[ci].push(format!("{}:{}:{}:{}", name, t0, t1, match v { Some(v) => v.to_string(), None => "none".into() }));
                        }
                        // the answer is written after the call was recorded: it is not part of the receive call
                        if let Some(rq) = rq {
                            let _ = rq.respond(Response::from_string("ok"));
                        }
                    }
                }
            });
        }
        for (pi, ops) in prods.iter().enumerate() {
            let server = server.clone();
            let ops = ops.clone();
            let keep = keep.clone();
            verif_rt::thread::spawn_named(&format!("prod{}", pi), move || {
                let mut conn: Option<verif_rt::net::TcpStream> = None;
                for op in ops {
                    match op {
                        POp::Sleep(d) => stdx::thread::sleep(Duration::from_micros(d)),
                        POp::Push(v) => {
                            if conn.is_none() {
                                conn = verif_rt::net::TcpStream::connect(addr).ok();
                                sched::log(&format!("connected {}", pi));
                            }
                            if let Some(c) = conn.as_ref() {
                                sched::log(&format!("send {}", v));
                                let mut w = c;
                                let _ = w.write(format!("GET /r{} HTTP/1.1\r\nHost: x\r\n\r\n", v).as_bytes());
                            }
                        }
                        POp::Unblock => {
                            sched::log("unblock");
                            server.unblock()
                        }
                        POp::Connect => {
                            if conn.is_none() {
                                conn = verif_rt::net::TcpStream::connect(addr).ok();
                                sched::log(&format!("connected {}", pi));
                            }
                        }
                        POp::Partial => {
                            if let Some(c) = conn.as_ref() {
                                let mut w = c;
                                let _ = w.write(b"GET /r-cut HT");
                            }
                        }
                        POp::Close => {
                            if conn.is_some() {
                                sched::log(&format!("closed {}", pi));
                            }
                            conn = None;
                        }
                    }
                }
                if let Some(c) = conn {
                    keep.lock().unwrap().push(c);
                }
            });
        }
        let quiet = sched::settle(600_000_000_000);
        sched::log("drain");
        let blocked: Vec<usize> = sched::threads()
            .iter()
            .filter(|(n, st)| n.starts_with("cons") && matches!(st, TState::Blocked { on: Res::Condvar(_), .. }))
            .map(|(n, _)| n[4..].parse::<usize>().unwrap())
            .collect();
        // what is left in the queue: `try_recv` cannot tell an unblock token from an empty queue
        let total: usize = prods.iter().map(|p| p.len()).sum();
        let mut left: Vec<String> = vec![];
        for _ in 0..total + 2 {
            if let Ok(Some(rq)) = server.try_recv() {
                left.push(id_of(&rq).map(|v| v.to_string()).unwrap_or_else(|| "bad".into()));
            }
        }
        if n_unblock > 0 || !blocked.is_empty() {
            left.push("?".into());
        }
        let live_end = sched::threads().iter().filter(|(n, st)| n.starts_with("task_pool.rs") && !matches!(st, TState::Finished)).count();
        (left, blocked, quiet, live_end)
    });
    let h = hist.lock().unwrap();
    if pool_view {
        // which connections (in connect order = producer order is not known from outside: count) had all
        // their requests delivered
        let delivered: std::collections::HashSet<String> = h.iter().flatten().filter_map(|r| r.rsplit(':').next().map(|x| x.to_string())).collect();
        let started: Vec<String> = sc
            .prods
            .iter()
            .filter(|p| p.iter().any(|o| matches!(o, POp::Push(_))))
            .map(|p| {
                let all = p.iter().all(|o| match o {
                    POp::Push(v) => delivered.contains(&v.to_string()) || left.contains(&v.to_string()),
                    _ => true,
                });
                if all { "ok".to_string() } else { "never".to_string() }
            })
            .collect();
        return format!(
            "pool id={} anon=1 burst={} seed={} ptimer={} preempt={} | labels={} started={} live_end={} quiet={} aborted={} clock={}",
            id,
            if burst { 1 } else { 0 },
            cfg.seed,
            cfg.p_timer,
            ctl_queue::preempted(&rep),
            pool_labels(&rep),
            started.join(","),
            live_end,
            if quiet { 1 } else { 0 },
            if rep.aborted { 1 } else { 0 },
            rep.clock
        ) + &format!(" steps={}", rep.steps);
    }
    let labels = ctl_queue::map_labels(&rep);
    format!(
        "queue id={} anon=1 burst={} seed={} ptimer={} preempt={} prods={} cons={} | labels={} hist={} left={} blocked={} quiet={} aborted={} clock={} live_end={} whole={}",
        id,
        if burst { 1 } else { 0 },
        cfg.seed,
        cfg.p_timer,
        ctl_queue::preempted(&rep),
        sc.prods.iter().map(|p| ctl_queue::enc_p(p)).collect::<Vec<_>>().join("|"),
        sc.cons.iter().map(|c| ctl_queue::enc_c(c)).collect::<Vec<_>>().join("|"),
        labels,
        h.iter().map(|c| c.join(",")).collect::<Vec<_>>().join("|"),
        left.join(","),
        blocked.iter().map(|b| b.to_string()).collect::<Vec<_>>().join(","),
        if quiet { 1 } else { 0 },
        if rep.aborted { 1 } else { 0 },
        rep.clock,
        live_end,
        whole_labels(&rep)
    )
}

/// time of return and identity of what a receive call handed out
fn finish(r: Option<tiny_http_rt::Request>) -> (Option<u64>, u64, Option<tiny_http_rt::Request>) {
    let t1 = sched::now_ns();
    match r {
        Some(rq) => (id_of(&rq), t1, Some(rq)),
        None => (None, t1, None),
    }
}

/// C20 (`backlog`): the server is dropped while requests that the application never received
/// are still queued — one client pipelining many requests, or many connections with one or two
/// each — and a few that it did receive are answered afterwards.  Then the clients go away and
/// more than the idle period passes: no thread of the server is left.
pub fn run_backlog(id: usize, rng: &mut Rng) -> String {
    // no injected latency here (`p_timer` lets the clock run ahead of a runnable thread, by any amount):
    // the scenario measures what is left a fixed time after the clients went away
    let cfg = Config { seed: rng.next(), p_timer: 0, p_preempt: *rng.pick(&[0u64, 0, 100]), p_atomic: *rng.pick(&[0u64, 300, 700]), max_steps: 2_000_000, ..Config::default() };
    // (now and then more connections than any fixed cap a server might put on them)
    let conns = if id % 40 == 17 { 300 } else { *rng.pick(&[1usize, 1, 2, 6, 12, 20]) };
    let per = if conns <= 2 { rng.range(9, 30) } else { rng.range(1, 3) };
    let take = *rng.pick(&[0usize, 0, 1, 3]);
    // 0, 1: none; 2: such a request opens every other connection; 3: it comes last there, behind requests nobody received
    let badmode = rng.below(4);
    let badver = badmode == 2;
    let badlast = badmode == 3;
    let ((queued, answered, taken, base, after_drop, after, left, refused), rep) = sched::run(&cfg, move || {
        let live = || sched::threads().iter().filter(|(n, st)| (n.starts_with("task_pool.rs") || n.starts_with("lib.rs")) && !matches!(st, TState::Finished)).count();
        let base = live();
        let server = Server::http("127.0.0.1:0").expect("server");
        let addr = server.server_addr().to_ip().unwrap();
        let mut clients = vec![];
        let mut late = vec![];
        let mut queued = 0usize;
        for c in 0..conns {
            if let Ok(s) = verif_rt::net::TcpStream::connect(addr) {
                // now and then a connection opens with a request in a version the server does not
                // speak (refused with 505, never queued): its thread is reclaimed like the others
                if badver && c % 2 == 0 {
                    let mut w = &s;
                    let _ = w.write(b"GET /v HTTP/2.0\r\nHost: x\r\n\r\n");
                }
                for k in 0..per {
                    let mut w = &s;
                    let _ = w.write(format!("GET /r{} HTTP/1.1\r\nHost: x\r\n\r\n", c * 100 + k).as_bytes());
                    queued += 1;
                }
                if badlast && c % 2 == 0 {
                    let mut w = &s;
                    let _ = w.write(b"GET /v HTTP/2.0\r\nHost: x\r\n\r\n");
                }
                clients.push(s);
            }
        }
        sched::settle(2_000_000_000);
        // a few requests are handed to the application before the drop
        let mut held = vec![];
        for _ in 0..take {
            if let Ok(Some(rq)) = server.try_recv() {
                held.push(rq);
            }
        }
        let taken = held.len();
        sched::settle(1_000_000_000);
        drop(server);
        sched::settle(1_000_000_000);
        let after_drop = live();
        // the listener is gone with the server: a new connection attempt is refused
        let refused = match verif_rt::net::TcpStream::connect(addr) {
            Err(_) => true,
            Ok(s) => {
                late.push(s);
                false
            }
        };
        // requests already handed out can still be answered
        let mut answered = 0usize;
        for rq in held {
            if rq.respond(Response::from_string("late")).is_ok() {
                answered += 1;
            }
        }
        sched::settle(1_000_000_000);
        drop(clients);
        drop(late);
        // more than the idle period (5 s), twice
        sched::settle(11_000_000_000);
        let after = live();
        let left: Vec<String> = sched::threads()
            .iter()
            .filter(|(n, st)| (n.starts_with("task_pool.rs") || n.starts_with("lib.rs")) && !matches!(st, TState::Finished))
            .map(|(n, st)| format!("{}:{:?}", n, st).replace(' ', ""))
            .collect();
        if after > 0 && std::env::var("VERIF_DEBUG").is_ok() {
            let ths = sched::threads();
            for (i, (n, st)) in ths.iter().enumerate() {
                if n.starts_with("task_pool.rs") && !matches!(st, TState::Finished) {
                    for e in sched::events().iter().filter(|e| e.tid == i).rev().take(30).collect::<Vec<_>>().into_iter().rev() {
                        eprintln!("  t{} @{} {}", e.tid, e.t, e.what);
                    }
                }
            }
        }
        (queued, answered, taken, base, after_drop, after, left, refused)
    });
    format!(
        "srv id={} kind=backlog conns={} n={} taken={} answered={} base={} after_drop={} after={} refused={} aborted={} clock={} badlast={} nbad={} left={}",
        id, conns, queued, taken, answered, base, after_drop, after, if refused { 1 } else { 0 }, if rep.aborted { 1 } else { 0 }, rep.clock,
        if badlast { 1 } else { 0 }, if badlast { (conns + 1) / 2 } else { 0 }, left.join(",")
    )
}
