//! `resp` cases: build a `Response` through the public API, print it with the public
//! `raw_print`, and emit one protocol line carrying the construction recipe and everything observed.
use crate::{hex, recase, Rng};
use std::io::{Cursor, Read};
use std::time::SystemTime;
use tiny_http::{HTTPVersion, Header, Response, StatusCode};

pub type Hdr = (Vec<u8>, Vec<u8>);

#[derive(Clone, Debug)]
pub enum Ctor {
    New { status: u16, hdrs: Vec<Hdr>, len: Option<usize>, pieces: Vec<Vec<u8>> },
    Str(String),
    Data(Vec<u8>),
    Empty(u16),
    /// `Response::empty(status)` given a Content-Length header, then cloned (a template for HEAD answers)
    EmptyLen(u16, usize),
    File(Vec<u8>),
}

#[derive(Clone, Debug)]
pub enum Op {
    H(Hdr),
    S(u16),
    T(usize),
    D(Option<usize>, Vec<Vec<u8>>),
}

#[derive(Clone, Debug)]
pub struct RespCase {
    pub ctor: Ctor,
    pub ops: Vec<Op>,
    pub ver: (u8, u8),
    pub reqhdrs: Vec<Hdr>,
    pub nobody: bool,
    pub upgrade: Option<String>,
}

/// A reader that returns exactly the given pieces, one per `read` (or less if the buffer is small).
pub struct PieceReader {
    pieces: Vec<Vec<u8>>,
    idx: usize,
    off: usize,
}

impl PieceReader {
    pub fn new(pieces: Vec<Vec<u8>>) -> PieceReader {
        PieceReader { pieces: pieces.into_iter().filter(|p| !p.is_empty()).collect(), idx: 0, off: 0 }
    }
}

impl Read for PieceReader {
    fn read(&mut self, buf: &mut [u8]) -> std::io::Result<usize> {
        if buf.is_empty() || self.idx >= self.pieces.len() {
            return Ok(0);
        }
        let p = &self.pieces[self.idx];
        let n = std::cmp::min(buf.len(), p.len() - self.off);
        buf[..n].copy_from_slice(&p[self.off..self.off + n]);
        self.off += n;
        if self.off == p.len() {
            self.idx += 1;
            self.off = 0;
        }
        Ok(n)
    }
}

fn mk_header(h: &Hdr) -> Option<Header> {
    Header::from_bytes(h.0.clone(), h.1.clone()).ok()
}

fn hdrs_hex(hs: &[Hdr]) -> String {
    hs.iter().map(|(n, v)| format!("{}:{}", hex(n), hex(v))).collect::<Vec<_>>().join(",")
}

fn pieces_hex(ps: &[Vec<u8>], sep: &str) -> String {
    ps.iter().filter(|p| !p.is_empty()).map(|p| hex(p)).collect::<Vec<_>>().join(sep)
}

fn opt(n: &Option<usize>) -> String {
    match n {
        Some(n) => n.to_string(),
        None => "none".into(),
    }
}

type BoxResp = Response<Box<dyn Read + Send>>;

fn construct(c: &Ctor, tmpdir: &str, id: u64) -> BoxResp {
    match c {
        Ctor::New { status, hdrs, len, pieces } => {
            // every third case hands the second half of its headers over through the
            // `additional_headers` receiver: they are added after the others, in order
            let all: Vec<Header> = hdrs.iter().filter_map(mk_header).collect();
            let (first, extra) = if id % 3 == 1 {
                let k = all.len() / 2;
                let (tx, rx) = std::sync::mpsc::channel();
                for h in all[k..].iter().cloned() {
                    let _ = tx.send(h);
                }
                (all[..k].to_vec(), Some(rx))
            } else {
                (all, None)
            };
            Response::new(StatusCode(*status), first, Box::new(PieceReader::new(pieces.clone())) as Box<dyn Read + Send>, *len, extra)
        }
        Ctor::Str(s) => Response::from_string(s.clone()).boxed(),
        Ctor::Data(d) => Response::from_data(d.clone()).boxed(),
        Ctor::Empty(s) => {
            if id % 2 == 1 {
                Response::empty(*s).clone().boxed()
            } else {
                Response::empty(*s).boxed()
            }
        }
        Ctor::EmptyLen(s, n) => Response::empty(*s)
            .with_header(Header::from_bytes(&b"Content-Length"[..], n.to_string().as_bytes()).unwrap())
            .clone()
            .boxed(),
        Ctor::File(d) => {
            let path = format!("{}/resp-{}-{}.bin", tmpdir, std::process::id(), id);
            std::fs::write(&path, d).unwrap();
            let f = std::fs::File::open(&path).unwrap();
            let r = Response::from_file(f).boxed();
            std::fs::remove_file(&path).ok();
            r
        }
    }
}

/// Runs one case against the real crate and returns the protocol line.
/// accepts `left` bytes, then every write fails
pub struct FailingWriter {
    pub left: usize,
}

impl std::io::Write for FailingWriter {
    fn write(&mut self, buf: &[u8]) -> std::io::Result<usize> {
        if self.left == 0 {
            return Err(std::io::Error::new(std::io::ErrorKind::BrokenPipe, "gone"));
        }
        let n = std::cmp::min(self.left, buf.len());
        self.left -= n;
        Ok(n)
    }
    fn flush(&mut self) -> std::io::Result<()> {
        Ok(())
    }
}

/// hands at most `max` bytes per `write` call to the vector behind it (a short write, which
/// `io::Write` allows): what arrives must not depend on it
pub struct ShortWriter<'a> {
    pub inner: &'a mut Vec<u8>,
    pub max: usize,
}

impl<'a> std::io::Write for ShortWriter<'a> {
    fn write(&mut self, buf: &[u8]) -> std::io::Result<usize> {
        let n = std::cmp::min(self.max, buf.len());
        self.inner.extend_from_slice(&buf[..n]);
        Ok(n)
    }
    fn flush(&mut self) -> std::io::Result<()> {
        Ok(())
    }
}

pub fn run_case(id: u64, c: &RespCase, tmpdir: &str) -> String {
    let mut line = String::new();
    line.push_str(&format!("resp id={}", id));
    match &c.ctor {
        Ctor::New { status, hdrs, len, pieces } => line.push_str(&format!(
            " ctor=new cstatus={} chdrs={} clen={} cbody={}",
            status,
            hdrs_hex(hdrs),
            opt(len),
            pieces_hex(pieces, ",")
        )),
        Ctor::Str(s) => line.push_str(&format!(" ctor=string cbody={}", hex(s.as_bytes()))),
        Ctor::Data(d) => line.push_str(&format!(" ctor=data cbody={}", hex(d))),
        Ctor::Empty(s) | Ctor::EmptyLen(s, _) => line.push_str(&format!(" ctor=empty cstatus={}", s)),
        Ctor::File(d) => line.push_str(&format!(" ctor=file cbody={}", hex(d))),
    }
    // (for the model `EmptyLen` is `empty` followed by the header: cloning changes nothing)
    let pre: Vec<String> = match &c.ctor {
        Ctor::EmptyLen(_, n) => vec![format!("h:{}:{}", hex(b"Content-Length"), hex(n.to_string().as_bytes()))],
        _ => vec![],
    };
    let ops: Vec<String> = pre
        .into_iter()
        .chain(c.ops.iter().map(|o| match o {
            Op::H((n, v)) => format!("h:{}:{}", hex(n), hex(v)),
            Op::S(s) => format!("s:{}", s),
            Op::T(t) => format!("t:{}", t),
            Op::D(l, ps) => format!("d:{}:{}", opt(l), pieces_hex(ps, ".")),
        }))
        .collect();
    line.push_str(&format!(" ops={}", ops.join(";")));
    line.push_str(&format!(
        " ver={}.{} reqhdrs={} nobody={} upgrade={}",
        c.ver.0,
        c.ver.1,
        hdrs_hex(&c.reqhdrs),
        if c.nobody { 1 } else { 0 },
        match &c.upgrade {
            Some(p) => hex(p.as_bytes()),
            None => "none".into(),
        }
    ));

    // what this thread printed before must not matter, not even a response whose writer failed in
    // the middle of the status line, of a long header block or of the body
    let prefail = id % 5 == 2;
    line.push_str(&format!(" prefail={}", if prefail { 1 } else { 0 }));
    let cc = c.clone();
    let tmp = tmpdir.to_string();
    let result = std::panic::catch_unwind(move || {
        if prefail {
            let budget = [0usize, 7, 600, 1500, 5000][(id as usize / 5) % 5];
            let long = "v".repeat([10usize, 1100, 3000][(id as usize / 25) % 3]);
            let r = Response::from_data(vec![b'p'; 4000])
                .with_header(Header::from_bytes(&b"Set-Cookie"[..], long.as_bytes()).unwrap())
                .with_chunked_threshold(if id % 2 == 0 { 0 } else { 100000 });
            let mut w = FailingWriter { left: budget };
            let _ = r.raw_print(&mut w, HTTPVersion(1, 1), &[], false, None);
        }
        let mut r = construct(&cc.ctor, &tmp, id);
        let mut use_add = false;
        for o in &cc.ops {
            match o {
                Op::H(h) => {
                    if let Some(h) = mk_header(h) {
                        // alternate between the two public ways of adding a header
                        if use_add {
                            r.add_header(h);
                        } else {
                            r = r.with_header(h);
                        }
                        use_add = !use_add;
                    }
                }
                Op::S(s) => r = r.with_status_code(*s),
                Op::T(t) => r = r.with_chunked_threshold(*t),
                Op::D(l, ps) => {
                    r = r.with_data(Box::new(PieceReader::new(ps.clone())) as Box<dyn Read + Send>, *l)
                }
            }
        }
        let status = r.status_code().0;
        let dlen = r.data_length();
        let hdrs: Vec<Hdr> = r
            .headers()
            .iter()
            .map(|h| (h.field.as_str().as_bytes().to_vec(), h.value.as_bytes().to_vec()))
            .collect();
        let reqh: Vec<Header> = cc.reqhdrs.iter().filter_map(mk_header).collect();
        let mut out: Vec<u8> = Vec::new();
        let before = SystemTime::now();
        // three cases in four print through a writer that takes 1 / 7 / 100 bytes per call
        let max = [usize::MAX, 1, 7, 100][(id as usize / 3) % 4];
        let res = if max == usize::MAX {
            r.raw_print(&mut out, HTTPVersion(cc.ver.0, cc.ver.1), &reqh, cc.nobody, cc.upgrade.as_deref())
        } else {
            let mut sw = ShortWriter { inner: &mut out, max };
            r.raw_print(&mut sw, HTTPVersion(cc.ver.0, cc.ver.1), &reqh, cc.nobody, cc.upgrade.as_deref())
        };
        let after = SystemTime::now();
        (status, dlen, hdrs, out, res.is_ok(), before, after)
    });
    match result {
        Ok((status, dlen, hdrs, out, ok, before, after)) => {
            // first Date header of the output, and whether it is the current time
            let (date, dateok) = find_date(&out, before, after);
            line.push_str(&format!(
                " status={} dlen={} hdrs={} out={} ok={} date={} dateok={} panic=0",
                status,
                opt(&dlen),
                hdrs_hex(&hdrs),
                hex(&out),
                if ok { 1 } else { 0 },
                hex(&date),
                if dateok { 1 } else { 0 }
            ));
        }
        Err(_) => line.push_str(" status=0 dlen=none hdrs= out= ok=0 date= dateok=0 panic=1"),
    }
    line
}

fn find_date(out: &[u8], before: SystemTime, after: SystemTime) -> (Vec<u8>, bool) {
    let mut pos = 0;
    while pos < out.len() {
        let end = match out[pos..].windows(2).position(|w| w == b"\r\n") {
            Some(e) => pos + e,
            None => break,
        };
        let l = &out[pos..end];
        if l.is_empty() {
            break;
        }
        if l.len() >= 5 && l[..5].eq_ignore_ascii_case(b"date:") {
            let v: Vec<u8> = l[5..].iter().cloned().skip_while(|b| *b == b' ').collect();
            let ok = std::str::from_utf8(&v)
                .ok()
                .and_then(|s| httpdate::parse_http_date(s).ok())
                .map(|t| {
                    let lo = before - std::time::Duration::from_secs(2);
                    let hi = after + std::time::Duration::from_secs(2);
                    t >= lo && t <= hi
                })
                .unwrap_or(false);
            return (v, ok);
        }
        pos = end + 2;
    }
    (Vec::new(), false)
}

// ------------------------------------------------------------------------------------------
// generators

pub fn body_bytes(rng: &mut Rng, n: usize) -> Vec<u8> {
    // mostly printable, with some CR/LF/NUL/high bytes so that bodies resemble framing
    let mode = rng.below(3);
    (0..n)
        .map(|i| match mode {
            0 => b'a' + (i % 26) as u8,
            1 => *rng.pick(b"0123456789abcdef\r\n;: "),
            _ => (rng.next() & 0xff) as u8,
        })
        .collect()
}

pub fn split_pieces(rng: &mut Rng, body: &[u8]) -> Vec<Vec<u8>> {
    if body.is_empty() {
        return vec![];
    }
    match rng.below(6) {
        0 => vec![body.to_vec()],
        1 if body.len() <= 300 => body.iter().map(|b| vec![*b]).collect(),
        2 => body.chunks(8192).map(|c| c.to_vec()).collect(),
        3 => body.chunks(8191).map(|c| c.to_vec()).collect(),
        4 => body.chunks(8193).map(|c| c.to_vec()).collect(),
        _ => {
            let mut v = vec![];
            let mut i = 0;
            while i < body.len() {
                let max = *rng.pick(&[1usize, 7, 100, 4096, 8192, 20000]);
                let n = std::cmp::min(body.len() - i, rng.range(1, max));
                v.push(body[i..i + n].to_vec());
                i += n;
            }
            v
        }
    }
}

pub const TE_POOL: &[&str] = &[
    "chunked",
    "identity",
    "trailers",
    "gzip",
    "CHUNKED",
    "Identity",
    "chunked;q=0",
    "identity;q=0",
    "chunked; q=0.5, identity; q=0.8",
    "identity;q=0.5, chunked;q=0.5",
    "chunked;q=0.5, identity;q=0.5",
    "identity;q=1, chunked;q=1.000",
    "gzip;q=1.0, identity; q=0.5",
    "gzip;q=1.0, chunked; q=0.5",
    "chunked;q=abc",
    "chunked;q=",
    "chunked;q=0.0, identity",
    "identity;q=0.0, chunked",
    "trailers, chunked;q=0.2",
    " chunked ",
    "chunked ; q=0.3 , identity ; q=0.30",
    "identity;foo=bar;q=0.1, chunked;q=0.05",
    "identity;q=2, chunked;q=1.5",
    "chunked;q=-1",
    "identity;q=0;q=1",
    "identity;q=x;q=0, chunked;q=0.1",
    "",
    ",",
    "chunked;q=0.001,identity;q=0.002",
    "identity;Q=0.1, chunked;q=0.05",
    "trailers;q=1, gzip;q=0.9",
    "identity;q=0.2, gzip, chunked;q=0.2",
    "identity;q=.5, chunked;q=0.6",
    "chunked;q=1., identity;q=1.5",
    "identity;q=+0.5, chunked;q=0.25",
];

/// q-values outside the modelled grammar: the model reports `unmodelled`, the case is only
/// checked for "no panic" and well-formedness.
pub const TE_EXOTIC: &[&str] = &[
    "chunked;q=NaN",
    "identity;q=nan, chunked",
    "chunked;q=inf",
    "identity;q=1e-1, chunked",
    "chunked;q=0.0000001, identity;q=1E2",
    "identity;q=1234.5",
    "chunked;q=-inf, identity",
    "identity;q=infinity",
];

fn rand_te(rng: &mut Rng) -> String {
    let n = rng.range(1, 4);
    let mut parts = vec![];
    for _ in 0..n {
        let nm = *rng.pick(&["chunked", "identity", "trailers", "gzip", "deflate"]);
        let name = recase(rng, nm);
        let q = *rng.pick(&["", ";q=0", ";q=0.0", ";q=0.5", ";q=0.50", "; q=0.500", ";q=1", ";q=1.0", ";q=0.001", ";q=0.9", ";q=2", ";q=.5", ";q=1.", ";q=abc", ";x=y;q=0.7", " ; q=0.25 "]);
        parts.push(format!("{}{}", name, q));
    }
    parts.join(if rng.chance(1, 2) { "," } else { ", " })
}

pub const STATUS_POOL: &[u16] = &[
    100, 101, 102, 103, 150, 199, 200, 200, 200, 201, 204, 205, 206, 226, 299, 300, 301, 304, 304, 400, 404, 417, 418,
    499, 500, 503, 599, 600, 999,
];
pub const STATUS_ODD: &[u16] = &[0, 1, 99, 1000, 12345, 65535];

const HDR_NAMES: &[&str] = &[
    "Connection", "Trailer", "Transfer-Encoding", "Upgrade", "Content-Length", "Content-Type", "Content-Type", "Date",
    "Server", "X-Foo", "X-Foo", "X-Bar", "Set-Cookie", "Cache-Control", "ETag", "Content-Encoding", "Content-Lengthy",
    "Dat", "X",
];

pub fn rand_header(rng: &mut Rng) -> Hdr {
    let hn = HDR_NAMES[rng.below(HDR_NAMES.len())];
    let name = recase(rng, hn);
    let lname = name.to_ascii_lowercase();
    let value: String = if lname == "content-length" {
        rng.pick(&["0", "5", "17", "+3", "abc", "", "12 ", "007", "18446744073709551615", "18446744073709551616", "-1"]).to_string()
    } else if lname == "date" {
        rng.pick(&["Sun, 06 Nov 1994 08:49:37 GMT", "yesterday"]).to_string()
    } else {
        let n = rng.below(12);
        (0..n).map(|_| *rng.pick(b"abcXYZ019 :;=,/-_\t") as char).collect::<String>().trim().to_string()
    };
    (name.into_bytes(), value.into_bytes())
}

pub fn len_pool(thr: usize) -> Vec<usize> {
    let mut v = vec![0, 1, 2, 10, 100, 1023, 1024, 1025, 8191, 8192, 8193, 16384, 16385];
    for t in [thr.wrapping_sub(1), thr, thr.wrapping_add(1)] {
        if t <= 70000 {
            v.push(t);
        }
    }
    v
}

/// one structured, mostly valid random case
pub fn gen_random(rng: &mut Rng) -> RespCase {
    let thr_choice = rng.below(8);
    let small = rng.chance(3, 4);
    let base_len = if small { *rng.pick(&[0usize, 1, 2, 5, 10, 64, 100, 300]) } else { let lp = len_pool(32768); *rng.pick(&lp) };
    let thr: Option<usize> = match thr_choice {
        0 | 1 | 2 => None,
        3 => Some(0),
        4 => Some(1),
        5 => Some(base_len.saturating_sub(1)),
        6 => Some(base_len),
        _ => *rng.pick(&[Some(base_len + 1), Some(usize::MAX), Some(10)]),
    };
    let body = body_bytes(rng, base_len);
    let status = if rng.chance(1, 20) { *rng.pick(STATUS_ODD) } else { *rng.pick(STATUS_POOL) };
    let nh = *rng.pick(&[0usize, 0, 1, 2, 3, 5, 8]);
    let mut all_hdrs: Vec<Hdr> = (0..nh).map(|_| rand_header(rng)).collect();
    let declared = match rng.below(10) {
        0 | 1 | 2 => None,
        9 if rng.chance(1, 3) => Some(base_len + 1 + rng.below(3)), // mismatch: compared with the model only
        _ => Some(base_len),
    };
    let mut ops = vec![];
    let ctor = match rng.below(10) {
        0 => {
            // valid UTF-8 incl. multi-byte
            let s: String = (0..std::cmp::min(base_len, 200)).map(|_| *rng.pick(&['a', 'é', '€', '𝄞', ' ', '\n'])).collect();
            Ctor::Str(s)
        }
        1 => Ctor::Data(body.clone()),
        2 if rng.chance(1, 3) => Ctor::EmptyLen(status, *rng.pick(&[0usize, 5, 12345])),
        2 => Ctor::Empty(status),
        3 if rng.chance(1, 2) => Ctor::File(body.clone()),
        _ => {
            let k = rng.below(all_hdrs.len() + 1);
            let ch: Vec<Hdr> = all_hdrs.drain(..k).collect();
            Ctor::New { status, hdrs: ch, len: declared, pieces: split_pieces(rng, &body) }
        }
    };
    for h in all_hdrs {
        ops.push(Op::H(h));
    }
    if !matches!(ctor, Ctor::New { .. }) && rng.chance(1, 2) {
        ops.push(Op::S(status));
    }
    if rng.chance(1, 8) {
        let nl = *rng.pick(&[0usize, 3, 50, 9000]);
        let nb = body_bytes(rng, nl);
        let dl = if rng.chance(1, 4) { None } else { Some(nb.len()) };
        let at = rng.below(ops.len() + 1);
        ops.insert(at, Op::D(dl, split_pieces(rng, &nb)));
    }
    if let Some(t) = thr {
        let at = rng.below(ops.len() + 1);
        ops.insert(at, Op::T(t));
    }
    let ver = if rng.chance(1, 8) {
        (rng.below(3) as u8, *rng.pick(&[0u8, 1, 9, 10, 11, 12, 100, 255]))
    } else {
        *rng.pick(&[(1u8, 1u8), (1, 1), (1, 1), (1, 0), (1, 0), (0, 9), (2, 0), (1, 2)])
    };
    let mut reqhdrs: Vec<Hdr> = vec![];
    if rng.chance(1, 3) {
        reqhdrs.push((b"Host".to_vec(), b"example".to_vec()));
    }
    match rng.below(10) {
        0..=3 => {}
        4 | 5 => reqhdrs.push((recase(rng, "TE").into_bytes(), TE_POOL[rng.below(TE_POOL.len())].as_bytes().to_vec())),
        6 | 7 => reqhdrs.push((recase(rng, "TE").into_bytes(), rand_te(rng).into_bytes())),
        8 => {
            // two TE headers: the first wins
            reqhdrs.push((b"TE".to_vec(), rand_te(rng).into_bytes()));
            reqhdrs.push((b"te".to_vec(), rand_te(rng).into_bytes()));
        }
        _ => reqhdrs.push((b"TE".to_vec(), TE_EXOTIC[rng.below(TE_EXOTIC.len())].as_bytes().to_vec())),
    }
    if rng.chance(1, 4) {
        reqhdrs.push((b"Accept-Encoding".to_vec(), b"chunked;q=1".to_vec()));
    }
    RespCase {
        ctor,
        ops,
        ver,
        reqhdrs,
        nobody: rng.chance(1, 5),
        upgrade: if rng.chance(1, 20) { Some("websocket".into()) } else { None },
    }
}

/// The finite product named in C05's quantifier, enumerated (not sampled).
/// `full` = every TE variant and the large default-threshold bodies.
pub fn enumerate_c05(full: bool) -> Vec<RespCase> {
    let mut out = vec![];
    let tes: Vec<Option<&str>> = {
        let mut v: Vec<Option<&str>> = vec![None];
        let n = if full { TE_POOL.len() } else { 14 };
        for t in TE_POOL.iter().take(n) {
            v.push(Some(t));
        }
        v
    };
    let versions = [(0u8, 9u8), (1, 0), (1, 1)];
    let statuses = [100u16, 200, 204, 304, 404];
    // (threshold, lengths)
    let mut thr_lens: Vec<(Option<usize>, Vec<Option<usize>>)> = vec![
        (Some(0), vec![None, Some(0), Some(1)]),
        (Some(1), vec![None, Some(0), Some(1), Some(2)]),
        (Some(10), vec![None, Some(0), Some(9), Some(10), Some(11)]),
        (Some(usize::MAX), vec![None, Some(0), Some(11)]),
    ];
    if full {
        thr_lens.push((None, vec![None, Some(0), Some(32767), Some(32768), Some(32769)]));
    } else {
        thr_lens.push((None, vec![None, Some(0), Some(11)]));
    }
    for ver in versions {
        for st in statuses {
            for (thr, lens) in &thr_lens {
                for len in lens {
                    for te in &tes {
                        for nobody in [false, true] {
                            for up in [false, true] {
                                if up && (te.is_some() && !full) {
                                    continue;
                                }
                                let n = len.unwrap_or(7);
                                let body: Vec<u8> = (0..n).map(|i| b'a' + (i % 26) as u8).collect();
                                let mut ops = vec![];
                                if let Some(t) = thr {
                                    ops.push(Op::T(*t));
                                }
                                let mut reqhdrs = vec![];
                                if let Some(t) = te {
                                    reqhdrs.push((b"TE".to_vec(), t.as_bytes().to_vec()));
                                }
                                out.push(RespCase {
                                    ctor: Ctor::New {
                                        status: st,
                                        hdrs: vec![],
                                        len: *len,
                                        pieces: if body.is_empty() { vec![] } else { vec![body] },
                                    },
                                    ops,
                                    ver,
                                    reqhdrs,
                                    nobody,
                                    upgrade: if up { Some("websocket".into()) } else { None },
                                });
                            }
                        }
                    }
                }
            }
        }
    }
    // constructors that declare a length themselves, at the boundary 0
    for ver in versions {
        for nobody in [false, true] {
            for n in [0usize, 5] {
                let body: Vec<u8> = (0..n).map(|i| b'a' + (i % 26) as u8).collect();
                for ctor in [Ctor::File(body.clone()), Ctor::Data(body.clone()), Ctor::EmptyLen(200, n)] {
                    out.push(RespCase { ctor, ops: vec![], ver, reqhdrs: vec![], nobody, upgrade: None });
                }
            }
        }
    }
    // the order of versions: every (major, minor) the type can hold at the edges of the
    // two-component order (a version below 1.0 with a large minor, 1.x with any minor, large majors)
    {
        let mut vs: Vec<(u8, u8)> = vec![];
        let edge: [u8; 9] = [0, 1, 2, 9, 10, 11, 99, 100, 255];
        for ma in edge {
            for mi in edge {
                vs.push((ma, mi));
            }
        }
        if full {
            for mi in 0..=255u8 {
                vs.push((0, mi));
                vs.push((1, mi));
            }
        }
        for ver in vs {
            for len in [None, Some(11usize)] {
                for te in [None, Some("chunked"), Some("identity;q=0.3, chunked;q=0.9")] {
                    let body: Vec<u8> = (0..len.unwrap_or(7)).map(|i| b'a' + (i % 26) as u8).collect();
                    let mut reqhdrs = vec![];
                    if let Some(t) = te {
                        reqhdrs.push((b"TE".to_vec(), t.as_bytes().to_vec()));
                    }
                    out.push(RespCase {
                        ctor: Ctor::New { status: 200, hdrs: vec![], len, pieces: vec![body] },
                        ops: vec![Op::T(5)],
                        ver,
                        reqhdrs,
                        nobody: false,
                        upgrade: None,
                    });
                }
            }
        }
    }
    // the large default-threshold boundary, sampled even in the quick tier
    if !full {
        for len in [32767usize, 32768, 32769] {
            for ver in [(1u8, 0u8), (1, 1)] {
                let body: Vec<u8> = (0..len).map(|i| b'a' + (i % 26) as u8).collect();
                out.push(RespCase {
                    ctor: Ctor::New { status: 200, hdrs: vec![], len: Some(len), pieces: vec![body] },
                    ops: vec![],
                    ver,
                    reqhdrs: vec![],
                    nobody: false,
                    upgrade: None,
                });
            }
        }
    }
    out
}

/// boundary cases for C04: chunk-size and threshold edges, all status classes, piece shapes.
pub fn enumerate_c04(rng: &mut Rng, full: bool) -> Vec<RespCase> {
    let mut out = vec![];
    let lens: Vec<usize> = if full {
        vec![0, 1, 2, 15, 16, 17, 255, 256, 4095, 4096, 8191, 8192, 8193, 16383, 16384, 16385, 24576, 32767, 32768, 32769, 65536, 70001]
    } else {
        vec![0, 1, 16, 255, 8191, 8192, 8193, 16384, 16385, 32768, 65536]
    };
    for &len in &lens {
        for declared in [true, false] {
            for st in [200u16, 204, 304, 100, 404, 500, 599] {
                for ver in [(1u8, 0u8), (1, 1)] {
                    for nobody in [false, true] {
                        if !full && len > 8193 && (st != 200 || nobody) {
                            continue;
                        }
                        let body = body_bytes(rng, len);
                        let thr = *rng.pick(&[None, None, Some(0usize), Some(1), Some(len), Some(len + 1), Some(usize::MAX)]);
                        let mut ops = vec![];
                        if let Some(t) = thr {
                            ops.push(Op::T(t));
                        }
                        out.push(RespCase {
                            ctor: Ctor::New {
                                status: st,
                                hdrs: vec![],
                                len: if declared { Some(len) } else { None },
                                pieces: split_pieces(rng, &body),
                            },
                            ops,
                            ver,
                            reqhdrs: if rng.chance(1, 3) { vec![(b"TE".to_vec(), TE_POOL[rng.below(TE_POOL.len())].as_bytes().to_vec())] } else { vec![] },
                            nobody,
                            upgrade: None,
                        });
                    }
                }
            }
        }
    }
    out
}

#[allow(dead_code)]
fn _unused(_c: Cursor<Vec<u8>>) {}
