//! OS-level observations on the pristine crate: server drop, thread reclamation, connection bursts.
use std::io::{Read, Write};
use std::net::TcpStream;
use std::time::{Duration, Instant};
use tiny_http::{Response, Server};

fn thread_count() -> usize {
    std::fs::read_dir("/proc/self/task").map(|d| d.count()).unwrap_or(0)
}

fn read_response(s: &mut TcpStream, timeout_ms: u64) -> Vec<u8> {
    let _ = s.set_read_timeout(Some(Duration::from_millis(timeout_ms)));
    let mut out = vec![];
    let mut buf = [0u8; 4096];
    loop {
        match s.read(&mut buf) {
            Ok(0) => break,
            Ok(n) => {
                out.extend_from_slice(&buf[..n]);
                if out.windows(4).any(|w| w == b"\r\n\r\n") && out.ends_with(b"done") {
                    break;
                }
            }
            Err(_) => break,
        }
    }
    out
}

/// drop the server while a request is handed out: accepting must stop, answering must still work
pub fn drop_case(id: usize, unix: bool, tmpdir: &str) -> String {
    // (socket paths are file names, not text: now and then one that is not valid UTF-8)
    let path: std::ffi::OsString = if id % 4 == 1 {
        use std::os::unix::ffi::OsStringExt;
        let mut b = format!("{}/srv-{}-{}-", tmpdir, std::process::id(), id).into_bytes();
        b.extend_from_slice(b"\xff\xfe.sock");
        std::ffi::OsString::from_vec(b)
    } else {
        format!("{}/srv-{}-{}.sock", tmpdir, std::process::id(), id).into()
    };
    let server = if unix {
        let _ = std::fs::remove_file(&path);
        Server::http_unix(std::path::Path::new(&path)).unwrap()
    } else {
        // also an address of the loopback range other than 127.0.0.1
        Server::http(if id % 4 == 0 { "127.0.0.2:0" } else { "127.0.0.1:0" }).unwrap()
    };
    let addr = server.server_addr();
    let mut answered = false;
    let refused_ms: i64;
    let mut path_removed = "na".to_string();
    let mut first_refused = true;
    if unix {
        let mut c = std::os::unix::net::UnixStream::connect(&path).unwrap();
        c.write_all(b"GET /held HTTP/1.1\r\nHost: x\r\n\r\n").unwrap();
        let rq = server.recv_timeout(Duration::from_secs(2)).unwrap().unwrap();
        // a second name of the socket file: removing the path must not be what makes connecting
        // fail — the listener itself has to be gone
        let link = { let mut l = path.clone(); l.push(".link"); l };
        let _ = std::fs::remove_file(&link);
        let linked = std::fs::hard_link(&path, &link).is_ok();
        drop(server);
        // the first attempt through the other name, a quarter of a second after the drop, must be
        // refused already (an attempt that is accepted would itself wake a stuck accept loop up)
        std::thread::sleep(Duration::from_millis(250));
        if linked && std::os::unix::net::UnixStream::connect(&link).is_ok() {
            first_refused = false;
        }
        let t0 = Instant::now();
        let mut r = -1i64;
        while t0.elapsed() < Duration::from_millis(1500) {
            if std::os::unix::net::UnixStream::connect(&path).is_err() && (!linked || std::os::unix::net::UnixStream::connect(&link).is_err()) {
                r = t0.elapsed().as_millis() as i64;
                break;
            }
            std::thread::sleep(Duration::from_millis(5));
        }
        let _ = std::fs::remove_file(&link);
        refused_ms = r;
        path_removed = if std::path::Path::new(&path).exists() { "0".into() } else { "1".into() };
        let _ = rq.respond(Response::from_string("done"));
        let _ = c.set_read_timeout(Some(Duration::from_millis(1500)));
        let mut out = vec![];
        let mut buf = [0u8; 1024];
        while let Ok(n) = c.read(&mut buf) {
            if n == 0 {
                break;
            }
            out.extend_from_slice(&buf[..n]);
            if out.ends_with(b"done") {
                break;
            }
        }
        answered = out.starts_with(b"HTTP/1.1 200") && out.ends_with(b"done");
    } else {
        let ip = addr.to_ip().unwrap();
        let mut c = TcpStream::connect(ip).unwrap();
        c.write_all(b"GET /held HTTP/1.1\r\nHost: x\r\n\r\n").unwrap();
        let rq = server.recv_timeout(Duration::from_secs(2)).unwrap().unwrap();
        drop(server);
        // "within a short bounded time new connection attempts are refused": after a quarter of a
        // second the very first attempt must be (an attempt must not be what stops the listener)
        std::thread::sleep(Duration::from_millis(250));
        first_refused = TcpStream::connect_timeout(&ip, Duration::from_millis(200)).is_err();
        let t0 = Instant::now();
        let mut r = -1i64;
        while t0.elapsed() < Duration::from_millis(1500) {
            match TcpStream::connect_timeout(&ip, Duration::from_millis(200)) {
                Err(_) => {
                    r = t0.elapsed().as_millis() as i64;
                    break;
                }
                Ok(s) => drop(s),
            }
            std::thread::sleep(Duration::from_millis(5));
        }
        refused_ms = r;
        let _ = rq.respond(Response::from_string("done"));
        let out = read_response(&mut c, 1500);
        answered = out.starts_with(b"HTTP/1.1 200") && out.ends_with(b"done");
    }
    format!(
        "srv id={} kind={} refused_ms={} answered={} path_removed={} first_refused={}",
        id,
        if unix { "drop-unix" } else { "drop-tcp" },
        refused_ms,
        if answered { 1 } else { 0 },
        path_removed,
        if first_refused { 1 } else { 0 }
    )
}

/// a UNIX-socket server whose accept loop has already ended (a listener that reports an error:
/// here a non-blocking one, `accept` fails with WouldBlock) is dropped: the path must still be
/// removed and connection attempts refused
pub fn drop_dead_unix_case(id: usize, tmpdir: &str) -> String {
    let path = format!("{}/srv-dead-{}-{}.sock", tmpdir, std::process::id(), id);
    let _ = std::fs::remove_file(&path);
    let l = std::os::unix::net::UnixListener::bind(&path).unwrap();
    l.set_nonblocking(true).unwrap();
    let server = Server::from_listener(l, None).unwrap();
    // the accept error reaches the application, the accept thread is gone
    let reported = server.recv_timeout(Duration::from_millis(1000)).is_err();
    std::thread::sleep(Duration::from_millis(30));
    drop(server);
    let t0 = Instant::now();
    let mut r = -1i64;
    while t0.elapsed() < Duration::from_millis(1500) {
        if std::os::unix::net::UnixStream::connect(&path).is_err() {
            r = t0.elapsed().as_millis() as i64;
            break;
        }
        std::thread::sleep(Duration::from_millis(5));
    }
    let removed = !std::path::Path::new(&path).exists();
    let _ = std::fs::remove_file(&path);
    format!("srv id={} kind=drop-unix-dead refused_ms={} answered=1 path_removed={} reported={}", id, r, if removed { 1 } else { 0 }, if reported { 1 } else { 0 })
}

/// N keep-alive connections opened at once: each must get its response while all others stay open
pub fn burst_case(id: usize, n: usize) -> String {
    burst_case_held(id, n, 0)
}

/// the same with `held` earlier connections whose (last) request, an upload with a streamed body
/// on a connection that will not be reused, stays with the application unanswered meanwhile:
/// connections waiting on their handlers must not hold up the others
pub fn burst_case_held(id: usize, n: usize, held: usize) -> String {
    let server = std::sync::Arc::new(Server::http("127.0.0.1:0").unwrap());
    let ip = server.server_addr().to_ip().unwrap();
    let s2 = server.clone();
    let app = std::thread::spawn(move || {
        let mut served = 0;
        let mut kept = vec![];
        while served < n {
            match s2.recv_timeout(Duration::from_millis(2500)) {
                Ok(Some(rq)) => {
                    if rq.url() == "/slow" {
                        kept.push(rq);
                        continue;
                    }
                    let _ = rq.respond(Response::from_string("done"));
                    served += 1;
                }
                _ => break,
            }
        }
        for rq in kept {
            let _ = rq.respond(Response::from_string("late"));
        }
        served
    });
    // let the pool's workers go idle first (the defect needs idle workers and a burst)
    std::thread::sleep(Duration::from_millis(30));
    let mut slow: Vec<TcpStream> = vec![];
    for k in 0..held {
        let mut c = TcpStream::connect(ip).unwrap();
        let mut m = match k % 3 {
            0 => b"POST /slow HTTP/1.1\r\nHost: x\r\nConnection: close\r\nContent-Length: 4000\r\n\r\n".to_vec(),
            1 => b"POST /slow HTTP/1.0\r\nContent-Length: 4000\r\n\r\n".to_vec(),
            _ => b"POST /slow HTTP/1.1\r\nHost: x\r\nConnection: close\r\nTransfer-Encoding: chunked\r\n\r\n5\r\nhello\r\n".to_vec(),
        };
        if k % 3 != 2 {
            m.extend(std::iter::repeat(b'u').take(4000));
        }
        c.write_all(&m).unwrap();
        slow.push(c);
    }
    if held > 0 {
        std::thread::sleep(Duration::from_millis(60));
    }
    let mut conns: Vec<TcpStream> = (0..n).map(|_| TcpStream::connect(ip).unwrap()).collect();
    for c in conns.iter_mut() {
        c.write_all(b"GET /burst HTTP/1.1\r\nHost: x\r\n\r\n").unwrap();
    }
    let mut ok = 0;
    for c in conns.iter_mut() {
        let out = read_response(c, 2000);
        if out.starts_with(b"HTTP/1.1 200") && out.ends_with(b"done") {
            ok += 1;
        }
    }
    drop(conns);
    // the held uploads end first: answering a request drains its body, which for a stalled chunked
    // body means waiting for the client
    drop(slow);
    let served = app.join().unwrap_or(0);
    format!("srv id={} kind=burst n={} held={} answered_all={} got={} served={}", id, n, held, if ok == n { 1 } else { 0 }, ok, served)
}

/// bursts of short connections, then idleness: the thread count must return to its baseline
pub fn reclaim_case(id: usize, n: usize) -> String {
    let pre = thread_count();
    let server = std::sync::Arc::new(Server::http("127.0.0.1:0").unwrap());
    let ip = server.server_addr().to_ip().unwrap();
    std::thread::sleep(Duration::from_millis(50));
    let base = thread_count();
    let s2 = server.clone();
    let stop = std::sync::Arc::new(std::sync::atomic::AtomicBool::new(false));
    let st2 = stop.clone();
    let app = std::thread::spawn(move || {
        while !st2.load(std::sync::atomic::Ordering::Relaxed) {
            if let Ok(Some(rq)) = s2.recv_timeout(Duration::from_millis(100)) {
                let _ = rq.respond(Response::from_string("done"));
            }
        }
    });
    let mut conns: Vec<TcpStream> = (0..n).map(|_| TcpStream::connect(ip).unwrap()).collect();
    for c in conns.iter_mut() {
        c.write_all(b"GET /r HTTP/1.1\r\nHost: x\r\n\r\n").unwrap();
    }
    let mut ok = 0;
    for c in conns.iter_mut() {
        if read_response(c, 2000).ends_with(b"done") {
            ok += 1;
        }
    }
    let peak = thread_count();
    drop(conns);
    std::thread::sleep(Duration::from_millis(5700));
    let after = thread_count();
    stop.store(true, std::sync::atomic::Ordering::Relaxed);
    let _ = app.join();
    // `base` was taken before the application thread existed; `peak`/`after` include it
    format!("srv id={} kind=reclaim n={} ok={} pre={} base={} peak={} after={}", id, n, ok, pre, base, peak, after - 1)
}

/// drop the server while one request is handed out and a second, pipelined one is still queued:
/// the drop must return, the listener must close, the handed-out request must still be answerable
pub fn drop_queued_case(id: usize) -> String {
    use std::sync::mpsc;
    let server = Server::http("127.0.0.1:0").unwrap();
    let ip = server.server_addr().to_ip().unwrap();
    let mut c = TcpStream::connect(ip).unwrap();
    c.write_all(b"GET /held HTTP/1.1\r\nHost: x\r\n\r\nGET /queued HTTP/1.1\r\nHost: x\r\n\r\n").unwrap();
    let rq = server.recv_timeout(Duration::from_secs(2)).unwrap().unwrap();
    // give the connection thread time to queue the second request
    std::thread::sleep(Duration::from_millis(60));
    let (tx, rx) = mpsc::channel();
    let t0 = Instant::now();
    // the drop runs on its own thread so that a drop that never returns is observed, not suffered
    std::thread::spawn(move || {
        drop(server);
        let _ = tx.send(());
    });
    let drop_returned = rx.recv_timeout(Duration::from_millis(2000)).is_ok();
    let drop_ms = t0.elapsed().as_millis();
    let mut refused_ms: i64 = -1;
    let t1 = Instant::now();
    while t1.elapsed() < Duration::from_millis(1500) {
        match TcpStream::connect_timeout(&ip, Duration::from_millis(200)) {
            Err(_) => {
                refused_ms = t1.elapsed().as_millis() as i64;
                break;
            }
            Ok(s) => drop(s),
        }
        std::thread::sleep(Duration::from_millis(5));
    }
    let _ = rq.respond(Response::from_string("done"));
    let out = read_response(&mut c, 1500);
    let answered = out.starts_with(b"HTTP/1.1 200") && out.windows(4).any(|w| w == b"done");
    format!("srv id={} kind=drop-queued refused_ms={} answered={} path_removed=na drop_returned={} drop_ms={}", id, refused_ms, if answered { 1 } else { 0 }, if drop_returned { 1 } else { 0 }, drop_ms)
}
