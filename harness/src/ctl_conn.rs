// `conn` cases on the controlled build: the whole server (accept loop, task pool, message queue,
// sequential readers/writers, ClientConnection) of the generated copy runs on verif_rt's in-memory
// network.  Exact segmentation (one read = at most one written segment), cut points followed by
// half-close / close / reset, concurrent handler threads.
use super::*;
use std::io::{Read, Write};
use tiny_http_rt::{Header, Response, Server, StatusCode};
use verif_harness::connrun::{action_enc, mask_dates, Action, ConnCase, PRE_DELAY, FailingReader, Finish, Mode, RespSpec, WOp};
use verif_harness::hex;
use verif_harness::respgen::PieceReader;

#[derive(Clone, Debug, PartialEq)]
pub enum EndKind {
    HalfClose,
    Open,
    Close,
    Reset,
}

#[derive(Clone, Debug, PartialEq)]
pub enum Handlers {
    Sequential,
    /// every request is handled on its own thread, which sleeps `delay` virtual µs first
    Threads(Vec<u64>),
    /// one thread collects `k` requests, then answers them in the given order
    Collect(usize, Vec<usize>),
    /// `k` receiver threads, each takes one request and holds it until all are held
    Park(usize),
    /// one thread: the first request's raw writer is taken at once (its body unread) and kept
    /// while the other `k - 1` requests are collected; then everything is answered in order
    WriterFirst(usize),
}

pub struct CtlCase {
    /// make the server's writes fail with this kind after that many response bytes
    pub write_err: Option<(usize, std::io::ErrorKind)>,
    pub base: ConnCase,
    pub cut: Option<usize>,
    pub end: EndKind,
    pub handlers: Handlers,
    pub fresh: bool, // afterwards, a fresh connection must be served
    /// clients that connect and reset before being accepted, ahead of the real client
    pub vanish_first: usize,
    /// what each vanishing client sends before it resets (empty: nothing)
    pub vanish_data: Vec<u8>,
    /// ordinary clients that come first, one after the other: each sends these bytes (an unfinished
    /// head) and closes
    pub prelude: Vec<Vec<u8>>,
    /// ordinary clients that come first too, send these bytes (possibly none) and then stay
    /// connected, silent, until the conversation under test is over
    pub prelude_open: Vec<Vec<u8>>,
    /// the client pauses for that many virtual µs once it has sent the first `offset` bytes
    pub gaps: Vec<(usize, u64)>,
    /// report the handlers' event sequence (`events=`) for the trace acceptance on `Lts.Par`
    pub events: bool,
}

fn hdrs_enc(hs: &[(Vec<u8>, Vec<u8>)]) -> String {
    hs.iter().map(|(n, v)| format!("{}~{}", hex(n), hex(v))).collect::<Vec<_>>().join("+")
}

fn mk_response(r: &RespSpec) -> Response<Box<dyn Read + Send>> {
    let mut resp = Response::new(
        StatusCode(r.status),
        r.hdrs.iter().filter_map(|(n, v)| Header::from_bytes(n.clone(), v.clone()).ok()).collect(),
        Box::new(PieceReader::new(r.pieces.clone())) as Box<dyn Read + Send>,
        r.declared,
        None,
    );
    if let Some(t) = r.thr {
        resp = resp.with_chunked_threshold(t);
    }
    resp
}

fn mk_failing_response(r: &RespSpec, fail_after: usize) -> Response<Box<dyn Read + Send>> {
    let mut resp = Response::new(
        StatusCode(r.status),
        r.hdrs.iter().filter_map(|(n, v)| Header::from_bytes(n.clone(), v.clone()).ok()).collect(),
        Box::new(FailingReader::new(r.pieces.clone(), fail_after)) as Box<dyn Read + Send>,
        r.declared,
        None,
    );
    if let Some(t) = r.thr {
        resp = resp.with_chunked_threshold(t);
    }
    resp
}

fn do_ops<W: Write + ?Sized>(w: &mut W, ops: &[WOp]) {
    for o in ops {
        match o {
            WOp::W(b) => {
                // pieces of even length go through `write_vectored` (two slices), the rest of the
                // piece through `write_all`: the same bytes in the same order
                if b.len() >= 2 && b.len() % 2 == 0 {
                    let (x, y) = b.split_at(b.len() / 2);
                    let n = w.write_vectored(&[std::io::IoSlice::new(x), std::io::IoSlice::new(y)]).unwrap_or(b.len());
                    let _ = w.write_all(&b[std::cmp::min(n, b.len())..]);
                } else {
                    let _ = w.write_all(b);
                }
            }
            WOp::F => {
                let _ = w.flush();
            }
        }
    }
}

#[derive(Default, Clone)]
struct Rec {
    head: String,
    body: Vec<u8>,
    rend: &'static str,
    result: Option<bool>,
}

type Log = Arc<StdMutex<Vec<Rec>>>;

/// what the handler threads did, in real order (the runtime runs one thread at a time): the
/// labels of `Lts.Par` that are visible from outside (see lean/TinyHttpModel/ParCase.lean)
static EVENTS: StdMutex<Vec<String>> = StdMutex::new(Vec::new());

fn ev(kind: char, idx: usize) {
    EVENTS.lock().unwrap().push(format!("{}{}", kind, idx));
}

/// first half of a handler: ask for the body and read what the script says
fn read_phase(rq: &mut tiny_http_rt::Request, a: &Action, idx: usize, log: &Log) {
    let mut end: &'static str = "none";
    if a.delay_ms >= PRE_DELAY {
        // a busy application: it asks for the body only a while after it got the request
        stdx::thread::sleep(Duration::from_millis(a.delay_ms - PRE_DELAY));
    }
    ev('b', idx);
    for _ in 1..a.as_reader {
        let _ = rq.as_reader();
    }
    if a.as_reader > 0 {
        log.lock().unwrap()[idx].rend = "pending";
        let _ = rq.as_reader();
        ev('c', idx);
        let reader = rq.as_reader();
        if a.zero_read {
            let _ = reader.read(&mut []);
        }
        let mut got = 0usize;
        let mut buf = vec![0u8; std::cmp::max(1, a.buf)];
        while got < a.read_total {
            let want = std::cmp::min(buf.len(), a.read_total - got);
            match verif_harness::connrun::read_some(reader, &mut buf, want) {
                Ok(0) => {
                    end = "eof";
                    break;
                }
                Ok(n) => {
                    got += n;
                    log.lock().unwrap()[idx].body.extend_from_slice(&buf[..n]);
                }
                Err(_) => {
                    end = "err";
                    break;
                }
            }
        }
    }
    if a.as_reader == 0 {
        ev('c', idx);
    }
    log.lock().unwrap()[idx].rend = end;
    ev('r', idx);
}

/// second half: answer / drop / raw writer / upgrade
fn finish_phase(rq: tiny_http_rt::Request, a: &Action, idx: usize, log: &Log) {
    let res = std::panic::catch_unwind(std::panic::AssertUnwindSafe(|| {
        if a.delay_ms > 0 && a.delay_ms < PRE_DELAY {
            stdx::thread::sleep(Duration::from_millis(a.delay_ms));
        }
        ev('f', idx);
        let ok = match &a.fin {
            Finish::Respond(r) => rq.respond(mk_response(r)).is_ok(),
            Finish::RespondFail(r, n) => {
                let _ = rq.respond(mk_failing_response(r, *n));
                true
            }
            Finish::Drop => {
                drop(rq);
                true
            }
            Finish::Panic => {
                let _hold = rq;
                panic!("handler panics while holding the request");
            }
            Finish::Writer(ops) => {
                let mut w = rq.into_writer();
                do_ops(&mut *w, ops);
                true
            }
            Finish::Upgrade(p, r, ops) => {
                let proto = String::from_utf8_lossy(p).to_string();
                let mut s = rq.upgrade(&proto, mk_response(r));
                do_ops(&mut *s, ops);
                true
            }
        };
        ev('d', idx);
        ok
    }));
    log.lock().unwrap()[idx].result = Some(res.unwrap_or(true));
}

fn handle(mut rq: tiny_http_rt::Request, a: Action, idx: usize, log: Log) {
    let r = std::panic::catch_unwind(std::panic::AssertUnwindSafe(|| read_phase(&mut rq, &a, idx, &log)));
    if r.is_err() {
        log.lock().unwrap()[idx].result = Some(true);
        return;
    }
    finish_phase(rq, &a, idx, &log);
}

fn head_of(rq: &tiny_http_rt::Request, client_port: u16) -> String {
    let mkind = {
        let d = format!("{:?}", rq.method());
        d.split('(').next().unwrap_or("").to_string()
    };
    let hdrs: Vec<(Vec<u8>, Vec<u8>)> =
        rq.headers().iter().map(|h| (h.field.as_str().as_bytes().to_vec(), h.value.as_bytes().to_vec())).collect();
    let addr = match rq.remote_addr() {
        Some(a) if a.port() == client_port => "tcp".to_string(),
        Some(a) => format!("other:{}", a.port()),
        None => "none".to_string(),
    };
    format!(
        "{},{},{},{}.{},{},{},{}",
        hex(rq.method().as_str().as_bytes()),
        mkind,
        hex(rq.url().as_bytes()),
        rq.http_version().0,
        rq.http_version().1,
        hdrs_enc(&hdrs),
        rq.body_length().map(|x| x.to_string()).unwrap_or_else(|| "none".into()),
        addr
    )
}

pub struct Outcome {
    pub delivered: Vec<String>,
    pub results: Vec<String>,
    pub wire: Vec<u8>,
    pub eof: bool,
    pub reset: bool,
    pub hang: bool,
    pub fresh_ok: Option<bool>,
    pub received: usize,
    pub panicked: bool,
    pub aborted: bool,
    pub writes: Vec<usize>,
    pub holdwire: Option<Vec<u8>>,
    pub events: Vec<String>,
}

pub fn execute(c: &CtlCase, cfg: &Config) -> Outcome {
    let bytes: Vec<u8> = match c.cut {
        Some(k) => c.base.bytes[..std::cmp::min(k, c.base.bytes.len())].to_vec(),
        None => c.base.bytes.clone(),
    };
    let segs = c.base.segs.clone();
    let hold = c.base.hold;
    let script = c.base.script.clone();
    let end = c.end.clone();
    let handlers = c.handlers.clone();
    let fresh = c.fresh;
    let write_err = c.write_err;
    let vanish_first = c.vanish_first;
    let vanish_data = c.vanish_data.clone();
    let prelude = c.prelude.clone();
    let prelude_open = c.prelude_open.clone();
    let gaps = c.gaps.clone();
    EVENTS.lock().unwrap().clear();
    let (out, rep) = sched::run(cfg, move || {
        let server = Arc::new(Server::http("127.0.0.1:0").expect("server"));
        let addr = server.server_addr().to_ip().unwrap();
        let log: Log = Arc::new(StdMutex::new(vec![]));
        let received = Arc::new(std::sync::atomic::AtomicUsize::new(0));
        for _ in 0..vanish_first {
            let _ = verif_rt::net::TcpStream::connect_send_and_vanish(addr, &vanish_data);
        }
        if vanish_first > 0 {
            sched::settle(1_000_000_000);
        }
        for p in &prelude {
            if let Ok(mut s) = verif_rt::net::TcpStream::connect(addr) {
                let _ = s.write_all(p);
                sched::settle(1_000_000_000);
                drop(s);
            }
            sched::settle(1_000_000_000);
        }
        let mut stalled = vec![];
        for p in &prelude_open {
            if let Ok(mut s) = verif_rt::net::TcpStream::connect(addr) {
                if !p.is_empty() {
                    let _ = s.write_all(p);
                }
                stalled.push(s);
            }
            if !p.is_empty() {
                sched::settle(1_000_000_000);
            }
        }
        let _stalled = stalled;
        let client = match verif_rt::net::TcpStream::connect(addr) {
            Ok(c) => c,
            Err(_) => {
                // the server stopped accepting: report it as a failed fresh connection
                return Outcome { delivered: vec![], results: vec![], wire: vec![], eof: true, reset: false, hang: false, fresh_ok: Some(false),
                                 received: 0, panicked: false, aborted: false, writes: vec![], holdwire: None, events: vec![] };
            }
        };
        let cport = client.local_addr().unwrap().port();
        if let Some((after, kind)) = write_err {
            client.fail_peer_writes_after(after, kind);
        }
        // ---- application
        if let Handlers::Park(k) = &handlers {
            let k = *k;
            let held = Arc::new(std::sync::atomic::AtomicUsize::new(0));
            for t in 0..k {
                let server = server.clone();
                let log = log.clone();
                let received = received.clone();
                let script = script.clone();
                let held = held.clone();
                verif_rt::thread::spawn_named(&format!("recv{}", t), move || {
                    let rq = match server.recv() {
                        Ok(rq) => rq,
                        Err(_) => return,
                    };
                    received.fetch_add(1, std::sync::atomic::Ordering::SeqCst);
                    let idx = {
                        let mut l = log.lock().unwrap();
                        l.push(Rec { head: head_of(&rq, cport), body: vec![], rend: "none", result: None });
                        l.len() - 1
                    };
                    held.fetch_add(1, std::sync::atomic::Ordering::SeqCst);
                    // hold the request until every receiver has one (or nothing moves any more)
                    let mut spins = 0;
                    while held.load(std::sync::atomic::Ordering::SeqCst) < k && spins < 50 {
                        stdx::thread::sleep(Duration::from_millis(100));
                        spins += 1;
                    }
                    // answer by position in the pipeline (requests carry their index in the url: /a<i>)
                    let pos = rq.url().trim_start_matches("/a").parse::<usize>().unwrap_or(idx);
                    let a = if script.is_empty() {
                        Action { as_reader: 0, read_total: 0, buf: 1, delay_ms: 0, fin: Finish::Drop, zero_read: false }
                    } else {
                        script[std::cmp::min(pos, script.len() - 1)].clone()
                    };
                    handle(rq, a, idx, log.clone());
                });
            }
        } else {
            let server = server.clone();
            let log = log.clone();
            let received = received.clone();
            let script = script.clone();
            let handlers = handlers.clone();
            verif_rt::thread::spawn_named("app", move || {
                let act = |i: usize| -> Action {
                    if script.is_empty() {
                        Action { as_reader: 0, read_total: 0, buf: 1, delay_ms: 0, fin: Finish::Drop, zero_read: false }
                    } else {
                        script[std::cmp::min(i, script.len() - 1)].clone()
                    }
                };
                let mut idx = 0usize;
                let mut held: Vec<(tiny_http_rt::Request, usize)> = vec![];
                let mut first_writer: Option<Box<dyn Write + Send>> = None;
                // the two usual application loops: `loop { server.recv() }` and
                // `for rq in server.incoming_requests()` (one iterator for the whole conversation)
                let through_iterator = script.len() % 2 == 0;
                let mut incoming = server.incoming_requests();
                loop {
                    let rq = if through_iterator {
                        match incoming.next() {
                            Some(rq) => rq,
                            None => return,
                        }
                    } else {
                        match server.recv() {
                            Ok(rq) => rq,
                            Err(_) => return,
                        }
                    };
                    if rq.url() == "/__fresh" {
                        let _ = rq.respond(Response::from_string("fresh"));
                        continue;
                    }
                    received.fetch_add(1, std::sync::atomic::Ordering::SeqCst);
                    log.lock().unwrap().push(Rec { head: head_of(&rq, cport), body: vec![], rend: "none", result: None });
                    let i = idx;
                    idx += 1;
                    ev('g', i);
                    match &handlers {
                        Handlers::Sequential => handle(rq, act(i), i, log.clone()),
                        Handlers::Threads(delays) => {
                            let d = delays.get(i).cloned().unwrap_or(0);
                            let a = act(i);
                            let l = log.clone();
                            verif_rt::thread::spawn_named(&format!("handler{}", i), move || {
                                if d > 0 {
                                    stdx::thread::sleep(Duration::from_micros(d));
                                }
                                handle(rq, a, i, l);
                            });
                        }
                        Handlers::Park(_) => unreachable!(),
                        Handlers::WriterFirst(k) => {
                            if i == 0 {
                                // `into_writer()` gives up the request: what is left of its body is skipped now
                                first_writer = Some(rq.into_writer());
                            } else {
                                let mut rq = rq;
                                read_phase(&mut rq, &act(i), i, &log);
                                held.push((rq, i));
                            }
                            if held.len() + 1 == *k {
                                if let Some(mut w) = first_writer.take() {
                                    if let Finish::Writer(ops) = &act(0).fin {
                                        do_ops(&mut *w, ops);
                                    }
                                    drop(w);
                                    log.lock().unwrap()[0].result = Some(true);
                                }
                                for (rq, i) in held.drain(..) {
                                    finish_phase(rq, &act(i), i, &log);
                                }
                            }
                        }
                        Handlers::Collect(k, order) => {
                            // the body is asked for / read at once; the answer comes later
                            let mut rq = rq;
                            read_phase(&mut rq, &act(i), i, &log);
                            held.push((rq, i));
                            if held.len() == *k {
                                let mut items: Vec<Option<(tiny_http_rt::Request, usize)>> = held.drain(..).map(Some).collect();
                                for &o in order {
                                    if let Some(Some((rq, i))) = items.get_mut(o).map(|x| x.take()) {
                                        finish_phase(rq, &act(i), i, &log);
                                    }
                                }
                                for it in items.into_iter().flatten() {
                                    finish_phase(it.0, &act(it.1), it.1, &log);
                                }
                            }
                        }
                    }
                }
            });
        }
        // ---- client: exact segments
        let mut cuts: Vec<usize> = segs.iter().cloned().filter(|&k| k > 0 && k < bytes.len()).collect();
        cuts.extend(gaps.iter().map(|g| g.0).filter(|&k| k > 0 && k < bytes.len()));
        if let Some(h) = hold {
            if h > 0 && h < bytes.len() {
                cuts.push(h);
            }
        }
        cuts.sort();
        cuts.dedup();
        cuts.push(bytes.len());
        let mut pos = 0;
        let mut cl = &client;
        let mut holdwire: Option<Vec<u8>> = None;
        let mut early: Vec<u8> = vec![];
        for &cut in &cuts {
            if cut > pos {
                let _ = cl.write(&bytes[pos..cut]);
            }
            pos = cut;
            if let Some(g) = gaps.iter().find(|g| g.0 == cut) {
                stdx::thread::sleep(Duration::from_micros(g.1));
            }
            if Some(cut) == hold {
                // withhold the rest until the server has said something (or everything is quiet)
                sched::settle(2_000_000_000);
                let (w, _, _) = client.drain_available();
                early.extend_from_slice(&w);
                holdwire = Some(early.clone());
            }
        }
        match end {
            EndKind::HalfClose => {
                let _ = client.shutdown(std::net::Shutdown::Write);
            }
            EndKind::Open => {}
            EndKind::Close => {
                sched::settle(2_000_000_000);
                let _ = client.shutdown(std::net::Shutdown::Both);
            }
            EndKind::Reset => {
                sched::settle(2_000_000_000);
                client.reset();
            }
        }
        let quiet = sched::settle(30_000_000_000);
        let (wire_rest, eof, reset) = client.drain_available();
        let mut wire = early.clone();
        wire.extend_from_slice(&wire_rest);
        let writes = client.peer_write_log();
        // ---- a fresh connection must still be served
        let mut fresh_ok = None;
        if fresh {
            let ok = match verif_rt::net::TcpStream::connect(addr) {
                Ok(c2) => {
                    let mut w = &c2;
                    let _ = w.write(b"GET /__fresh HTTP/1.1\r\nConnection: close\r\n\r\n");
                    sched::settle(30_000_000_000);
                    let (w2, _, _) = c2.drain_available();
                    w2.starts_with(b"HTTP/1.1 200") && w2.ends_with(b"fresh")
                }
                Err(_) => false,
            };
            fresh_ok = Some(ok);
        }
        let recs = log.lock().unwrap().clone();
        let hang = !quiet || recs.iter().any(|r| r.result.is_none());
        Outcome {
            delivered: recs.iter().map(|r| format!("{},{},{}", r.head, hex(&r.body), r.rend)).collect(),
            results: recs.iter().filter_map(|r| r.result).map(|b| if b { "ok".to_string() } else { "err".to_string() }).collect(),
            wire,
            eof,
            reset,
            hang,
            fresh_ok,
            received: received.load(std::sync::atomic::Ordering::SeqCst),
            panicked: false,
            aborted: false,
            writes,
            holdwire,
            events: EVENTS.lock().unwrap().clone(),
        }
    });
    let mut out = out;
    out.aborted = rep.aborted;
    // a thread that ended by panicking inside the library (not the scripted handler panic, which is caught)
    out.panicked = rep.panics > 0;
    out
}

pub fn line_of(id: usize, c: &CtlCase, o: &Outcome, extra: &str) -> String {
    let (mut masked, dates_ok) = mask_dates(&o.wire);
    if c.write_err.is_some() {
        // the stream may end inside a Date header, which then cannot be masked: cut it back
        if let Some(p) = masked.windows(8).rposition(|w| w == b"\r\nDate: ") {
            if masked.len() < p + 8 + 29 + 2 {
                masked.truncate(p);
            }
        }
    }
    let sent = match c.cut {
        Some(k) => &c.base.bytes[..std::cmp::min(k, c.base.bytes.len())],
        None => &c.base.bytes[..],
    };
    format!(
        "conn id={} bytes={} mode={} hold={} segs={} unix=0 script={} {} {} | delivered={} wire={} eof={} results={} hang={} dates={} fresh={} received={} aborted={}{}{}",
        id,
        hex(sent),
        match c.end {
            EndKind::HalfClose => "halfclose",
            EndKind::Open => "open",
            EndKind::Close => "close",
            EndKind::Reset => "reset",
        },
        c.base.hold.map(|x| x.to_string()).unwrap_or_else(|| "none".into()),
        if c.base.segs.is_empty() { "none".to_string() } else { c.base.segs.iter().map(|s| s.to_string()).collect::<Vec<_>>().join(",") },
        c.base.script.iter().map(action_enc).collect::<Vec<_>>().join("|"),
        c.base.intent,
        extra,
        o.delivered.join("|"),
        hex(&masked),
        if o.eof { 1 } else { 0 },
        o.results.join(","),
        if o.hang { 1 } else { 0 },
        if dates_ok { "ok" } else { "bad" },
        match o.fresh_ok {
            Some(true) => "1",
            Some(false) => "0",
            None => "na",
        },
        o.received,
        if o.aborted { 1 } else { 0 },
        match &o.holdwire {
            Some(h) => format!(" holdwire={}", hex(&mask_dates(h).0)),
            None => String::new(),
        },
        if c.events { format!(" events={}", o.events.join(",")) } else { String::new() }
    )
}

pub fn default_cfg(rng: &mut Rng) -> Config {
    Config { seed: rng.next(), p_timer: 0, max_steps: 400_000, log: false, ..Config::default() }
}

pub fn base_mode(c: &ConnCase) -> EndKind {
    if c.mode == Mode::Open {
        EndKind::Open
    } else {
        EndKind::HalfClose
    }
}
