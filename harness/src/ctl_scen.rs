// Scenario families on the controlled whole-server build (see ctl_conn.rs).
use super::ctl_conn::*;
use super::*;
use verif_harness::conngen as g;
use verif_harness::connrun::{Action, ConnCase, Finish, Mode};

fn corpus_case(rng: &mut Rng, small: bool, sel: usize) -> ConnCase {
    // conversations covering all framing kinds and error classes, round-robin over the index so
    // that every kind is present in every run
    let mut tries = 0;
    loop {
        tries += 1;
        let kind = if tries <= 20 { sel % 14 } else { rng.below(14) };
        let c = match kind {
            10 => {
                // Expect: 100-continue from a client that does not wait: the body comes with the head
                // (in the same segment or not, depending on the split); the handler reads it
                let blen = *rng.pick(&[1usize, 5, 700, 1024, 1500]);
                let mut r = g::AReq::get("/eager");
                r.method = "POST".into();
                r.hdrs.push((verif_harness::recase(rng, "Expect"), (*rng.pick(&["100-continue", "100-Continue"])).into()));
                r.expect100 = true;
                let fr = if rng.chance(1, 3) { g::Framing::Chunked } else { g::Framing::Len };
                g::set_body(rng, &mut r, fr, blen);
                let a = Action { as_reader: 1, read_total: blen + 10, buf: *rng.pick(&[1usize, 64, 4096]), delay_ms: 0, fin: Finish::Respond(g::ok_resp(0, rng)), zero_read: false };
                let reqs = vec![r, g::AReq::get("/after-eager")];
                let a1 = g::simple_action(1, rng);
                g::assemble_pub(rng, &reqs, vec![a, a1])
            }
            11 => {
                // line ends that are not CR LF: a lone LF or a lone CR inside / instead of a line end
                let raw: &[u8] = *rng.pick(&[
                    &b"GET /lf HTTP/1.1\nHost: x\n\n"[..],
                    &b"GET /lf HTTP/1.1\r\nHost: x\nX-Next: y\r\n\r\n"[..],
                    &b"GET /lf HTTP/1.1\r\nX-Note: one\ntwo: 2\r\n\r\n"[..],
                    &b"GET /lf HTTP/1.1\r\nX-Note: one\rtwo: 2\r\n\r\n"[..],
                    &b"GET /lf HTTP/1.1\nHost: x\r\n\r\n"[..],
                    &b"GET /lf HTTP/1.1\r\nHost: x\r\n\nGET /second HTTP/1.1\r\n\r\n"[..],
                ]);
                let mut bytes = raw.to_vec();
                bytes.extend_from_slice(b"GET /tail HTTP/1.1\r\nHost: t\r\n\r\n");
                let script = vec![g::simple_action(0, rng), g::simple_action(1, rng), g::simple_action(2, rng)];
                ConnCase { bytes, mode: Mode::HalfClose, hold: None, segs: vec![], script, unix: false, intent: String::new() }
            }
            9 => {
                // a chunked body whose chunk data is not followed by CR LF, read by the application:
                // how many payload bytes it obtains before the error depends on the segmentation
                // (known finding of C13, see known_findings.json)
                let mut bytes = b"POST /lossy HTTP/1.1\r\nHost: x\r\nTransfer-Encoding: chunked\r\n\r\n".to_vec();
                let n = rng.range(2, 9);
                bytes.extend_from_slice(format!("{:x}\r\n", n).as_bytes());
                bytes.extend((0..n).map(|i| b'a' + i as u8));
                bytes.extend_from_slice(b"XX\r\n0\r\n\r\n");
                let a = Action { as_reader: 1, read_total: 64, buf: *rng.pick(&[1usize, 3, 64]), delay_ms: 0, fin: Finish::Respond(g::ok_resp(0, rng)), zero_read: false };
                ConnCase { bytes, mode: Mode::HalfClose, hold: None, segs: vec![], script: vec![a], unix: false, intent: "i_lossy=1".to_string() }
            }
            12 | 13 => {
                // a chunked body that ends in an error AFTER complete chunks, each followed by its CR LF:
                // the stream ends before the last chunk (12), or a size line is not hexadecimal (13).
                // Everything in front of the error is obtained, however the bytes were segmented.
                let mut bytes = b"POST /cutchunks HTTP/1.1\r\nHost: x\r\nTransfer-Encoding: chunked\r\n\r\n".to_vec();
                let k = rng.range(1, 3);
                for j in 0..k {
                    let n = rng.range(1, 9);
                    bytes.extend_from_slice(format!("{:x}\r\n", n).as_bytes());
                    bytes.extend((0..n).map(|i| b'a' + ((i + j) % 26) as u8));
                    bytes.extend_from_slice(b"\r\n");
                }
                if kind == 13 {
                    bytes.extend_from_slice(b"zz\r\nmore\r\n0\r\n\r\n");
                }
                let a = Action { as_reader: 1, read_total: 64, buf: *rng.pick(&[1usize, 3, 64]), delay_ms: 0, fin: Finish::Respond(g::ok_resp(0, rng)), zero_read: false };
                ConnCase { bytes, mode: Mode::HalfClose, hold: None, segs: vec![], script: vec![a], unix: false, intent: String::new() }
            }
            0 => g::gen_mixed(rng),
            1 => g::gen_body(rng, false, false),
            2 => g::gen_body(rng, true, false),
            3 => g::gen_c18(rng),
            4 => g::gen_c12(rng),
            5 => {
                let cl = ["e400", "e417", "e505", "silent"][(sel / 10) % 4];
                let raw: &[u8] = match cl {
                    "e400" => g::BAD_400[rng.below(g::BAD_400.len())],
                    "e417" => g::BAD_417[rng.below(g::BAD_417.len())],
                    "e505" => g::BAD_505[rng.below(g::BAD_505.len())],
                    _ => g::BAD_SILENT[rng.below(g::BAD_SILENT.len())],
                };
                let pos = rng.below(3);
                g::gen_bad(rng, cl, raw, pos, false)
            }
            6 => {
                let v = g::smuggle_variants();
                let raw = v[rng.below(v.len())].clone();
                let pos = rng.below(2);
                g::gen_bad(rng, "smug", &raw, pos, false)
            }
            7 => g::gen_upgrade(rng),
            _ => g::gen_c02(rng),
        };
        if c.unix || c.mode == Mode::Open || c.hold.is_some() {
            continue;
        }
        if small && c.bytes.len() > 700 {
            continue;
        }
        if c.bytes.len() > 30000 {
            continue;
        }
        return c;
    }
}

fn ctl(base: ConnCase) -> CtlCase {
    let end = base_mode(&base);
    CtlCase { write_err: None, base, cut: None, end, handlers: Handlers::Sequential, fresh: false, vanish_first: 0, vanish_data: vec![], prelude: vec![], prelude_open: vec![], gaps: vec![], events: false }
}

fn obs_key(o: &Outcome) -> (Vec<String>, Vec<u8>, bool, Vec<String>) {
    (o.delivered.clone(), verif_harness::connrun::mask_dates(&o.wire).0, o.eof, o.results.clone())
}

/// C13: the same conversation unsplit, at every single split point (small ones), one byte at a
/// time, and with random multi-way splits.  Every line carries `same=` (equal to the unsplit run).
pub fn seg_family(id0: usize, rng: &mut Rng, out: &mut Vec<String>) {
    let small = rng.chance(1, 2);
    let base = corpus_case(rng, small, id0 / 1000);
    let cfg0 = default_cfg(rng);
    let c0 = ctl(base.clone());
    let o0 = execute(&c0, &cfg0);
    let k0 = obs_key(&o0);
    out.push(line_of(id0, &c0, &o0, "i_fam=unsplit same=1"));
    let n = base.bytes.len();
    let mut variants: Vec<Vec<usize>> = vec![];
    if n <= 260 {
        for k in 1..n {
            variants.push(vec![k]);
        }
        variants.push((1..n).collect()); // one byte at a time
    } else {
        for _ in 0..12 {
            variants.push(vec![rng.range(1, n - 1)]);
        }
        if n <= 3000 {
            variants.push((1..n).collect());
        }
    }
    for _ in 0..6 {
        let ways = rng.range(2, 8);
        let mut v: Vec<usize> = (0..ways).map(|_| rng.range(1, std::cmp::max(1, n - 1))).collect();
        v.sort();
        v.dedup();
        variants.push(v);
    }
    // boundaries of the 1 KiB read buffer
    if n > 1100 {
        variants.push(vec![1023, 1024, 1025]);
        variants.push((1..=(n / 1024)).map(|i| i * 1024).collect());
    }
    for (j, segs) in variants.into_iter().enumerate() {
        let mut b = base.clone();
        b.segs = segs;
        let c = ctl(b);
        let cfg = Config { seed: cfg0.seed.wrapping_add(j as u64 + 1), ..default_cfg(rng) };
        let o = execute(&c, &cfg);
        let same = obs_key(&o) == k0;
        out.push(line_of(id0, &c, &o, &format!("i_fam=split same={}", if same { 1 } else { 0 })));
    }
}

/// C15 (request side): every prefix of a conversation followed by half-close, close or reset.
pub fn cut_family(id0: usize, rng: &mut Rng, out: &mut Vec<String>) {
    let sel = id0 / 1000;
    let base = if sel % 3 == 2 {
        // a body larger than the buffering threshold (streamed), cut inside it too
        let mut r = g::AReq::get("/big");
        r.method = "POST".into();
        // ... and bodies at the threshold itself: 1024 bytes are still buffered before delivery
        // (taken in turn, so that a short run has them all)
        let turn = sel / 3;
        let blen = [1024usize, 1500, 1023, 3000, 1025, 1100][turn % 6];
        let f = if blen > 1025 && rng.chance(1, 3) { g::Framing::Chunked } else { g::Framing::Len };
        g::set_body(rng, &mut r, f, blen);
        let a = g::rich_action(0, rng, blen, true);
        // the request with the body may also be the connection's last one (a buffered body is
        // complete before delivery then, too)
        let closing = blen <= 1025 && turn % 2 == 0;
        if closing {
            if rng.chance(1, 2) {
                r.hdrs.push(("Connection".into(), "close".into()));
            } else {
                r.ver = (1, 0);
            }
            r.last = true;
        }
        let reqs = if closing { vec![g::AReq::get("/first"), r] } else { vec![g::AReq::get("/first"), r, g::AReq::get("/last")] };
        let script = vec![g::simple_action(0, rng), a, g::simple_action(2, rng)];
        let mut c = g::assemble_pub(rng, &reqs, script);
        no_panic_script(&mut c);
        c
    } else {
        corpus_case(rng, true, sel)
    };
    let cfg0 = default_cfg(rng);
    // element boundaries (for the "nothing incomplete is delivered" predicate)
    let ends: Vec<(usize, usize, bool)> = base
        .intent
        .split(' ')
        .find_map(|t| t.strip_prefix("i_ends="))
        .map(|v| v.split(',').filter_map(|e| { let f: Vec<&str> = e.split(':').collect(); if f.len() == 3 { Some((f[0].parse().ok()?, f[1].parse().ok()?, f[2] == "1")) } else { None } }).collect())
        .unwrap_or_default();
    let full = {
        let c0 = ctl(base.clone());
        execute(&c0, &cfg0)
    };
    let urls = |o: &Outcome| -> Vec<String> { o.delivered.iter().map(|d| d.split(',').nth(2).unwrap_or("").to_string()).collect() };
    let full_urls = urls(&full);
    let n = base.bytes.len();
    let ks: Vec<usize> = if n <= 400 { (0..=n).collect() } else { (0..60).map(|_| rng.range(0, n)).collect() };
    for k in ks {
        let end = match rng.below(3) {
            0 => EndKind::HalfClose,
            1 => EndKind::Close,
            _ => EndKind::Reset,
        };
        let mut c = ctl(base.clone());
        c.cut = Some(k);
        c.end = end;
        c.fresh = true;
        let o = execute(&c, &default_cfg(rng));
        let u = urls(&o);
        let prefix = u.len() <= full_urls.len() && u[..] == full_urls[..u.len()];
        // how many elements can possibly have been delivered: head complete, and a buffered body complete
        let allowed = ends.iter().filter(|(end, head_end, small)| *head_end <= k && (!*small || *end <= k)).count();
        let complete_ok = ends.is_empty() || u.len() <= allowed;
        // the generator's intent describes the whole stream, not the prefix: drop it
        c.base.intent = String::new();
        out.push(line_of(id0, &c, &o, &format!("i_fam=cut cutk={} prefix={} complete={} panicked={}", k, if prefix { 1 } else { 0 }, if complete_ok { 1 } else { 0 }, if o.panicked { 1 } else { 0 })));
    }
}

/// C15 (response side): the client goes away before / while the response is written.
pub fn resperr_family(id0: usize, rng: &mut Rng, out: &mut Vec<String>) {
    use std::io::ErrorKind as K;
    let mut base = g::gen_mixed(rng);
    base.mode = Mode::HalfClose;
    for a in base.script.iter_mut() {
        if let Finish::Panic = a.fin {
            a.fin = Finish::Drop;
        }
    }
    // response heads larger than the 1 KiB write buffer: the write that fails is then a write of the head
    if rng.chance(1, 3) {
        for a in base.script.iter_mut() {
            if let Finish::Respond(ref mut r) = a.fin {
                r.hdrs.push((b"X-Long".to_vec(), vec![b'h'; *rng.pick(&[1100usize, 3000])]));
            }
        }
    }
    let kind = *rng.pick(&[K::BrokenPipe, K::ConnectionReset, K::ConnectionAborted, K::ConnectionRefused]);
    let after = *rng.pick(&[0usize, 1, 10, 17, 100, 200, 1000, 1024, 1500]);
    let mut c = ctl(base);
    c.write_err = Some((after, kind));
    c.fresh = true;
    if rng.chance(1, 3) {
        c.handlers = Handlers::Threads((0..8).map(|_| *rng.pick(&[0u64, 10, 1000])).collect());
    }
    c.base.intent = String::new();
    let o = execute(&c, &default_cfg(rng));
    out.push(line_of(id0, &c, &o, &format!("i_fam=resperr werr={:?}:{} panicked={}", kind, after, if o.panicked { 1 } else { 0 })));
}

fn no_panic_script(c: &mut ConnCase) {
    // a scripted handler panic on a separate thread would end that thread: treat as drop
    for a in c.script.iter_mut() {
        if let Finish::Panic = a.fin {
            a.fin = Finish::Drop;
        }
    }
}

/// C01 / C06: n pipelined requests answered by concurrent handler threads in every order.
pub fn mt_family(id0: usize, rng: &mut Rng, out: &mut Vec<String>) {
    let n = rng.range(2, 6);
    let mut reqs = vec![];
    let mut script = vec![];
    for i in 0..n {
        let mut r = g::AReq::get(&format!("/mt{}", i));
        let mut blen = 0;
        if rng.chance(1, 3) {
            blen = *rng.pick(&[3usize, 700, 1024]);
            g::set_body(rng, &mut r, g::Framing::Len, blen);
            r.method = "POST".into();
        }
        if rng.chance(1, 6) {
            r.method = "HEAD".into();
        }
        reqs.push(r);
        let mut a = g::rich_action(i, rng, blen, true);
        if rng.chance(1, 3) {
            // big and chunked responses (above the 1 KiB shared write buffer)
            if let Finish::Respond(ref mut rs) = a.fin {
                let big: Vec<u8> = (0..*rng.pick(&[1500usize, 5000, 20000])).map(|j| b'a' + ((i + j) % 26) as u8).collect();
                rs.pieces = big.chunks(*rng.pick(&[500usize, 1024, 4096])).map(|c| c.to_vec()).collect();
                rs.declared = if rng.chance(1, 2) { Some(big.len()) } else { None };
            }
        }
        script.push(a);
    }
    if n >= 4 && rng.chance(1, 4) {
        // two (or three) consecutive raw writers taken and dropped untouched, after an earlier request
        let i = rng.range(1, n - 3);
        let m = if i + 3 < n && rng.chance(1, 3) { 3 } else { 2 };
        for k in i..i + m {
            script[k].fin = Finish::Writer(vec![]);
        }
    }
    let mut bytes = vec![];
    for r in &reqs {
        bytes.extend_from_slice(&g::render(rng, r));
    }
    let intent = g::intent_of_pub(&reqs);
    let mut base = ConnCase { bytes, mode: Mode::HalfClose, hold: None, segs: vec![], script, unix: false, intent };
    no_panic_script(&mut base);
    let mut c = ctl(base);
    c.handlers = if rng.chance(2, 3) {
        // now and then one handler that takes seconds (virtual time): the later responses wait for it,
        // however long, and nothing else
        let slow = if rng.chance(1, 6) { Some(rng.below(n)) } else { None };
        Handlers::Threads((0..n).map(|i| if Some(i) == slow { *rng.pick(&[5_500_000u64, 11_000_000]) } else { *rng.pick(&[0u64, 0, 5, 50, 500, 5000]) }).collect())
    } else {
        // one thread holds all n and answers them in arrival order (answering out of order on a
        // single thread waits for itself by design: see the quantifier of C01)
        Handlers::Collect(n, (0..n).collect())
    };
    let hs = format!("{:?}", c.handlers).replace(' ', "");
    let cfg = Config { p_stay: *rng.pick(&[0u64, 300, 700]), ..default_cfg(rng) };
    c.events = true;
    let o = execute(&c, &cfg);
    out.push(line_of(id0, &c, &o, &format!("i_fam=mt handlers={}", hs)));
}

/// C01 / C09 / C11 together: pipelines mixing requests without body, with buffered, streamed
/// (large, chunked, Expect: 100-continue) bodies, HTTP/2.0 requests (answered by the connection
/// thread) and a malformed tail, every delivered request on its own handler thread with its own
/// delay.  The handlers' event sequence is replayed on `Lts.Par`.
pub fn par_family(id0: usize, rng: &mut Rng, out: &mut Vec<String>) {
    let n = rng.range(2, 6);
    let mut reqs = vec![];
    let mut script = vec![];
    let mut k = 0;
    for i in 0..n {
        let kind = rng.below(8);
        if kind == 7 {
            reqs.push(g::AReq::bad("e505", g::BAD_505[rng.below(g::BAD_505.len())].to_vec()));
            continue;
        }
        let mut r = g::AReq::get(&format!("/par{}", i));
        let mut blen = 0;
        match kind {
            0 | 1 => {}
            2 => {
                blen = *rng.pick(&[3usize, 700, 1024]);
                g::set_body(rng, &mut r, g::Framing::Len, blen);
                r.method = "POST".into();
            }
            3 | 4 => {
                blen = *rng.pick(&[1025usize, 1500, 3000]);
                let f = if rng.chance(1, 2) { g::Framing::Chunked } else { g::Framing::Len };
                g::set_body(rng, &mut r, f, blen);
                r.method = "PUT".into();
            }
            5 => {
                blen = *rng.pick(&[5usize, 900]);
                r.hdrs.push(("Expect".into(), "100-continue".into()));
                r.expect100 = true;
                g::set_body(rng, &mut r, g::Framing::Len, blen);
                r.method = "POST".into();
            }
            _ => {
                r.method = "HEAD".into();
            }
        }
        reqs.push(r);
        let mut a = g::rich_action(k, rng, blen, true);
        if rng.chance(1, 4) {
            if let Finish::Respond(ref mut rs) = a.fin {
                let big: Vec<u8> = (0..*rng.pick(&[1500usize, 5000])).map(|j| b'a' + ((i + j) % 26) as u8).collect();
                rs.pieces = big.chunks(*rng.pick(&[500usize, 1024, 4096])).map(|c| c.to_vec()).collect();
                rs.declared = if rng.chance(1, 2) { Some(big.len()) } else { None };
            }
        }
        script.push(a);
        k += 1;
    }
    if rng.chance(1, 4) {
        reqs.push(g::AReq::bad("e400", g::BAD_400[rng.below(g::BAD_400.len())].to_vec()));
    }
    let mut base = g::assemble_pub(rng, &reqs, script);
    no_panic_script(&mut base);
    let mut c = ctl(base);
    let m = c.base.script.len();
    c.handlers = Handlers::Threads((0..m).map(|_| *rng.pick(&[0u64, 0, 5, 50, 500, 5000])).collect());
    c.events = true;
    let cfg = Config { p_stay: *rng.pick(&[0u64, 300, 700]), ..default_cfg(rng) };
    let o = execute(&c, &cfg);
    out.push(line_of(id0, &c, &o, "i_fam=par"));
}

/// C11: pipelines whose requests must all become available while none has been answered; and a
/// large / chunked body that is read to its end before the successor is waited for.
pub fn ahead_family(id0: usize, rng: &mut Rng, out: &mut Vec<String>) {
    // now and then a pipeline whose heads are small each (1.5 KiB) and large together (above 8 KiB,
    // above 16 KiB): what the earlier requests of a connection were like must not matter
    let big_heads = rng.chance(1, 6);
    let n = if big_heads { *rng.pick(&[7usize, 8, 12]) } else { rng.range(2, 8) };
    let streamed_first = rng.chance(1, 3);
    let mut reqs = vec![];
    let mut script = vec![];
    for i in 0..n {
        let mut r = g::AReq::get(&format!("/a{}", i));
        let mut a = Action { as_reader: 0, read_total: 0, buf: 4096, delay_ms: 0, fin: Finish::Respond(g::ok_resp(i, rng)), zero_read: false };
        if i == 0 && streamed_first {
            // larger than the buffering threshold, or chunked: read to EOF on arrival
            let blen = *rng.pick(&[1025usize, 3000, 9000]);
            let f = if rng.chance(1, 2) { g::Framing::Chunked } else { g::Framing::Len };
            g::set_body(rng, &mut r, f, blen);
            r.method = "POST".into();
            a.as_reader = 1;
            a.read_total = blen + 1;
            // the application may take its time before it reads the body: the successors wait for
            // that, however long it is, and are delivered afterwards
            if rng.chance(1, 5) {
                a.delay_ms = verif_harness::connrun::PRE_DELAY + *rng.pick(&[5_500u64, 11_000]);
            }
        } else {
            match rng.below(5) {
                0 => {}
                4 => {
                    // an explicit Content-Length: 0 is no body either
                    g::set_body(rng, &mut r, g::Framing::Len, 0);
                    r.method = "POST".into();
                }
                1 => {
                    g::set_body(rng, &mut r, g::Framing::Len, 1);
                    r.method = "POST".into();
                }
                2 => {
                    g::set_body(rng, &mut r, g::Framing::Len, 1024);
                    r.method = "PUT".into();
                }
                _ => {
                    let m = rng.range(2, 1023);
                    g::set_body(rng, &mut r, g::Framing::Len, m);
                    r.method = "POST".into();
                }
            }
        }
        // pipelines are not a matter of the protocol version: kept-alive HTTP/1.0 requests too
        if rng.chance(1, 4) {
            r.ver = (1, 0);
            r.hdrs.push((verif_harness::recase(rng, "Connection"), (*rng.pick(&["keep-alive", "Keep-Alive"])).into()));
        } else if rng.chance(1, 4) {
            // Connection options that neither close nor upgrade leave an HTTP/1.1 connection open
            r.hdrs.push((verif_harness::recase(rng, "Connection"), (*rng.pick(&["TE", "foo", "TE, X-Hop"])).into()));
        }
        // connection options split over two fields: the first field decides, and it says nothing of an upgrade
        if r.ver == (1, 1) && !r.hdrs.iter().any(|(n, _)| n.eq_ignore_ascii_case("connection")) && rng.chance(1, 6) {
            r.hdrs.push((verif_harness::recase(rng, "Connection"), "keep-alive".into()));
            r.hdrs.push((verif_harness::recase(rng, "Connection"), (*rng.pick(&["Upgrade", "upgrade", "x-hop"])).into()));
            r.hdrs.push(("Upgrade".into(), "websocket".into()));
        }
        // heads that are large together, small each
        if big_heads || rng.chance(1, 8) {
            r.hdrs.push(("Cookie".into(), "c".repeat(1500)));
        }
        reqs.push(r);
        script.push(a);
    }
    let mut bytes = vec![];
    for r in &reqs {
        bytes.extend_from_slice(&g::render(rng, r));
    }
    let intent = g::intent_of_pub(&reqs);
    let base = ConnCase { bytes, mode: Mode::HalfClose, hold: None, segs: vec![], script, unix: false, intent };
    let mut c = ctl(base);
    // one thread collecting all n, or (small bodies only) n receiver threads taking one each
    let park = !streamed_first && rng.chance(1, 3);
    c.handlers = if park { Handlers::Park(n) } else { Handlers::Collect(n, (0..n).collect()) };
    // ... or: the streamed first request is given up for its raw writer, body unread, and the
    // writer is kept while the successors are collected (they must not wait for it)
    if streamed_first && rng.chance(1, 3) {
        c.base.script[0].as_reader = 0;
        c.base.script[0].read_total = 0;
        c.base.script[0].delay_ms = 0;
        c.base.script[0].fin = Finish::Writer(g::raw_message(0, rng));
        c.handlers = Handlers::WriterFirst(n);
    }
    let o = execute(&c, &default_cfg(rng));
    // with parked receivers the delivery order is the receivers' business: compare the wire and the count only
    if park {
        c.base.intent = String::new();
    }
    out.push(line_of(id0, &c, &o, &format!("i_fam=ahead i_expect_received={} streamed_first={} park={}", n, if streamed_first { 1 } else { 0 }, if park { 1 } else { 0 })));
}

/// C12 (and every other connection property): time is no input.  The same conversations with a
/// client that falls silent (1 s .. 1 h of virtual time) between requests or in the middle of
/// one, and handlers that take 6..12 s to answer, must be served like the prompt ones.
pub fn idle_family(id0: usize, rng: &mut Rng, out: &mut Vec<String>) {
    let mut base = loop {
        let c = if rng.chance(1, 2) { g::gen_c12(rng) } else { g::gen_mixed(rng) };
        if c.mode == Mode::HalfClose && c.hold.is_none() && !c.unix && c.bytes.len() > 4 {
            break c;
        }
    };
    no_panic_script(&mut base);
    // request ends, from the generator's metadata
    let ends: Vec<usize> = base
        .intent
        .split(' ')
        .find_map(|t| t.strip_prefix("i_ends="))
        .map(|v| v.split(',').filter_map(|e| e.split(':').next().and_then(|x| x.parse().ok())).collect())
        .unwrap_or_default();
    let mut gaps: Vec<(usize, u64)> = vec![];
    for &e in &ends {
        if e < base.bytes.len() && rng.chance(2, 3) {
            gaps.push((e, *rng.pick(&[1_000_000u64, 6_000_000, 61_000_000, 3_600_000_000])));
        }
    }
    if rng.chance(1, 3) {
        // silence in the middle of a message
        gaps.push((rng.range(1, base.bytes.len() - 1), *rng.pick(&[6_000_000u64, 61_000_000])));
    }
    // one slow handler per conversation: the driver waits at most 30 virtual seconds for the
    // conversation to finish once the client has sent everything
    let slow = rng.chance(1, 3) && !base.script.is_empty();
    if slow {
        let k = rng.below(base.script.len());
        base.script[k].delay_ms = *rng.pick(&[6_000u64, 12_000]);
    }
    // the same conversation without any pause (C13: pauses between the segments are no input)
    let c0 = ctl(base.clone());
    let o0 = execute(&c0, &default_cfg(rng));
    let mut c = ctl(base);
    c.gaps = gaps.clone();
    let o = execute(&c, &default_cfg(rng));
    let same = obs_key(&o) == obs_key(&o0);
    out.push(line_of(id0, &c, &o, &format!("i_fam=idle gaps={} slow={} same={}", gaps.len(), if slow { 1 } else { 0 }, if same { 1 } else { 0 })));
}

/// C15: clients that connect and reset before the server accepts them; the server must keep
/// accepting and serve the next client.
pub fn vanish_family(id0: usize, rng: &mut Rng, out: &mut Vec<String>) {
    let base = g::gen_mixed(rng);
    let mut base = base;
    base.mode = Mode::HalfClose;
    no_panic_script(&mut base);
    let mut c = ctl(base);
    c.vanish_first = rng.range(1, 3);
    c.fresh = true;
    let o = execute(&c, &default_cfg(rng));
    out.push(line_of(id0, &c, &o, &format!("i_fam=vanish vanish={} panicked={}", c.vanish_first, if o.panicked { 1 } else { 0 })));
}

/// C02 (peer address): clients that send one or two complete requests and reset before the server
/// looks at the accepted socket (`peer_addr` fails, the queued bytes stay readable), then an
/// ordinary client.  Whatever is delivered on this TCP listener must carry a peer address.
pub fn vanishdata_family(id0: usize, rng: &mut Rng, out: &mut Vec<String>) {
    let mut base = g::gen_mixed(rng);
    base.mode = Mode::HalfClose;
    no_panic_script(&mut base);
    let mut c = ctl(base);
    c.vanish_first = rng.range(1, 3);
    c.vanish_data = if rng.chance(1, 2) {
        b"GET /gone HTTP/1.1\r\nHost: gone\r\n\r\n".to_vec()
    } else {
        b"GET /gone/1 HTTP/1.1\r\nHost: gone\r\n\r\nPOST /gone/2 HTTP/1.0\r\nContent-Length: 3\r\n\r\nabc".to_vec()
    };
    c.fresh = true;
    let o = execute(&c, &default_cfg(rng));
    out.push(line_of(id0, &c, &o, &format!("i_fam=vanishdata vanish={} panicked={}", c.vanish_first, if o.panicked { 1 } else { 0 })));
}

/// C08: connections that ended in the middle of a request line or header line come first (as many
/// as the pool has initial workers, and a few more); the conversation under test is then served
/// by a worker that has seen one of them, exactly as a fresh server would serve it.
pub fn midline_family(id0: usize, rng: &mut Rng, out: &mut Vec<String>) {
    let mut base = g::gen_mixed(rng);
    base.mode = Mode::HalfClose;
    no_panic_script(&mut base);
    let mut c = ctl(base);
    let n = rng.range(4, 8);
    for _ in 0..n {
        let p: &[u8] = *rng.pick(&[
            &b"GE"[..],
            &b"GET /cut HTTP/1.1\r\nHost: cu"[..],
            &b"POST /cut HTTP/1.1\r\nContent-Length: 3\r\nX-Cut"[..],
            &b"GET /cut HTTP/1.1\r"[..],
            &b"\xff\xfe\xfd"[..],
            &b"GET /cut HTTP/1.1\r\nCookie: \xc3"[..],
        ]);
        c.prelude.push(p.to_vec());
    }
    // ... and connections that stay open without getting anywhere: silent from the start, stalled in
    // the middle of a head or of a small body, or waiting after a request the server refused
    let m = if rng.chance(1, 2) { *rng.pick(&[1usize, 2, 3, 4, 5, 6]) } else { 0 };
    for _ in 0..m {
        let p: &[u8] = *rng.pick(&[
            &b""[..],
            &b"POST /stall HTTP/1.1\r\nHost: s\r\nContent-Length: 16\r\n\r\nabcde"[..],
            &b"POST /stall HTTP/1.0\r\nContent-Length: 1024\r\n\r\n"[..],
            &b"GET /v2 HTTP/2.0\r\nHost: s\r\n\r\n"[..],
            &b"GET /stall HTTP/1.1\r\nHost"[..],
        ]);
        c.prelude_open.push(p.to_vec());
    }
    c.fresh = true;
    let o = execute(&c, &default_cfg(rng));
    out.push(line_of(id0, &c, &o, &format!("i_fam=midline prelude={} stalled={} panicked={}", n, m, if o.panicked { 1 } else { 0 })));
}

/// C18 (and C01): an expectation on a request that is pipelined behind requests still being
/// handled on other threads.  The interim response is due when the application asks for the body
/// and it is that request's turn to write — the client, which withholds the body, has it in hand
/// (behind the earlier responses) before it sends a single body byte.
pub fn expmt_family(id0: usize, rng: &mut Rng, out: &mut Vec<String>) {
    let k = rng.range(1, 3);
    let mut reqs = vec![];
    let mut script = vec![];
    let mut delays = vec![];
    for i in 0..k {
        reqs.push(g::AReq::get(&format!("/before{}", i)));
        script.push(g::simple_action(i, rng));
        delays.push(*rng.pick(&[1_000u64, 300_000, 1_500_000]));
    }
    let mut r = g::AReq::get("/expecting");
    r.method = "PUT".into();
    r.hdrs.push((verif_harness::recase(rng, "Expect"), (*rng.pick(&["100-continue", "100-Continue"])).into()));
    r.expect100 = true;
    let n = *rng.pick(&[5usize, 1, 1500]);
    g::set_body(rng, &mut r, g::Framing::Len, n);
    reqs.push(r);
    script.push(Action { as_reader: 1, read_total: n, buf: 4096, delay_ms: 0, fin: Finish::Respond(g::ok_resp(k, rng)), zero_read: false });
    delays.push(0);
    let mut base = g::assemble_pub(rng, &reqs, script);
    base.mode = Mode::HalfClose;
    // the client stops behind the head of the expecting request and waits for the server
    let body_start = base.bytes.len() - n;
    base.hold = Some(body_start);
    base.intent.push_str(" i_holdneed=1");
    let mut c = ctl(base);
    c.handlers = Handlers::Threads(delays);
    let o = execute(&c, &default_cfg(rng));
    out.push(line_of(id0, &c, &o, "i_fam=expmt"));
}
