// Scenario driver for `MessagesQueue` (leaf module of the generated copy) under verif_rt:
// producers push / unblock at chosen virtual times, consumers mix pop / try_pop / pop_timeout.
use super::*;
use messages_queue::MessagesQueue;

#[derive(Clone, Debug)]
pub enum POp {
    Sleep(u64), // µs
    Push(u64),
    Unblock,
    /// whole-server scenarios only: the producer's connection is closed
    Close,
    /// whole-server scenarios only: the producer connects now and stays silent until its next push
    Connect,
    /// whole-server scenarios only: the producer sends the beginning of a request line and nothing more
    Partial,
}

#[derive(Clone, Debug)]
pub enum COp {
    Pop,
    Try,
    Timeout(u64), // µs
    Sleep(u64),
}

pub struct Scenario {
    pub prods: Vec<Vec<POp>>,
    pub cons: Vec<Vec<COp>>,
}

pub fn gen(rng: &mut Rng) -> Scenario {
    let np = rng.range(1, 3);
    let nc = rng.range(1, 4);
    let tmo = *rng.pick(&[5_000u64, 20_000]);
    let mut prods = vec![];
    let mut next = 1u64;
    for p in 0..np {
        let mut ops = vec![];
        let k = rng.range(0, 4);
        for _ in 0..k {
            if rng.chance(2, 3) {
                // sleeps chosen so that pushes land just before / at / after timeout expiry
                let d = *rng.pick(&[0u64, 100, 1_000, tmo - 900, tmo - 500, tmo - 100, tmo, tmo + 1_000, 2 * tmo - 100, 2 * tmo]);
                ops.push(POp::Sleep(d));
            }
            if rng.chance(1, 5) {
                ops.push(POp::Unblock);
            } else {
                ops.push(POp::Push((p as u64 + 1) * 1000 + next));
                next += 1;
            }
        }
        prods.push(ops);
    }
    let mut cons = vec![];
    for _ in 0..nc {
        let mut ops = vec![];
        let k = rng.range(1, 3);
        for _ in 0..k {
            match rng.below(8) {
                0 | 1 | 2 => ops.push(COp::Pop),
                3 => ops.push(COp::Try),
                // now and then the largest timeout there is (`Duration::MAX`): waits like `pop`
                4 if rng.chance(1, 6) => ops.push(COp::Timeout(u64::MAX)),
                4 | 5 | 6 => ops.push(COp::Timeout(tmo)),
                _ => ops.push(COp::Sleep(*rng.pick(&[100u64, tmo / 2, tmo]))),
            }
        }
        cons.push(ops);
    }
    Scenario { prods, cons }
}

/// `u64::MAX` stands for `Duration::MAX`
pub fn dur_of(us: u64) -> Duration {
    if us == u64::MAX { Duration::MAX } else { Duration::from_micros(us) }
}

pub fn enc_p(ops: &[POp]) -> String {
    ops.iter()
        .map(|o| match o {
            POp::Sleep(d) => format!("s{}", d),
            POp::Push(v) => format!("p{}", v),
            POp::Unblock => "u".to_string(),
            POp::Close => "x".to_string(),
            POp::Connect => "c".to_string(),
            POp::Partial => "h".to_string(),
        })
        .collect::<Vec<_>>()
        .join(",")
}
pub fn enc_c(ops: &[COp]) -> String {
    ops.iter()
        .map(|o| match o {
            COp::Pop => "pop".to_string(),
            COp::Try => "try".to_string(),
            COp::Timeout(t) => format!("to{}", t),
            COp::Sleep(d) => format!("s{}", d),
        })
        .collect::<Vec<_>>()
        .join(",")
}

pub fn run(id: usize, rng: &mut Rng) -> String {
    let sc = gen(rng);
    let cfg = Config { seed: rng.next(), p_timer: *rng.pick(&[0u64, 30, 200]), p_spurious: *rng.pick(&[0u64, 0, 0, 60, 300]), p_preempt: *rng.pick(&[0u64, 0, 0, 100, 400]), max_steps: 100_000, ..Config::default() };
    let hist: Arc<StdMutex<Vec<Vec<String>>>> = Arc::new(StdMutex::new(sc.cons.iter().map(|_| vec![]).collect()));
    let h2 = hist.clone();
    let prods = sc.prods.clone();
    let cons = sc.cons.clone();
    let ((left, blocked, quiet), rep) = sched::run(&cfg, move || {
        let q: Arc<MessagesQueue<u64>> = MessagesQueue::with_capacity(8);
        for (ci, ops) in cons.iter().enumerate() {
            let q = q.clone();
            let ops = ops.clone();
            let h = h2.clone();
            verif_rt::thread::spawn_named(&format!("cons{}", ci), move || {
                for op in ops {
                    let t0 = sched::now_ns();
                    let (name, res): (String, Option<Option<u64>>) = match op {
                        COp::Pop => {
                            sched::log("call pop");
                            h.lock().unwrap()[ci].push(format!("pop:{}:-:blocked", t0));
                            ("pop".into(), Some(q.pop()))
                        }
                        COp::Try => {
                            sched::log("call try");
                            h.lock().unwrap()[ci].push(format!("try:{}:-:blocked", t0));
                            ("try".into(), Some(q.try_pop()))
                        }
                        COp::Timeout(t) => {
                            sched::log(&format!("call to{}", t));
                            h.lock().unwrap()[ci].push(format!("to{}:{}:-:blocked", t, t0));
                            (format!("to{}", t), Some(q.pop_timeout(dur_of(t))))
                        }
                        COp::Sleep(d) => {
                            stdx::thread::sleep(Duration::from_micros(d));
                            ("s".into(), None)
                        }
                    };
                    if let Some(r) = res {
                        let t1 = sched::now_ns();
                        let mut g = h.lock().unwrap();
                        g[ci].pop();
                        g[ci].push(format!("{}:{}:{}:{}", name, t0, t1, match r { Some(v) => v.to_string(), None => "none".into() }));
                    }
                }
            });
        }
        for (pi, ops) in prods.iter().enumerate() {
            let q = q.clone();
            let ops = ops.clone();
            verif_rt::thread::spawn_named(&format!("prod{}", pi), move || {
                for op in ops {
                    match op {
                        POp::Sleep(d) => stdx::thread::sleep(Duration::from_micros(d)),
                        POp::Push(v) => {
                            sched::log(&format!("push {}", v));
                            q.push(v)
                        }
                        POp::Unblock => {
                            sched::log("unblock");
                            q.unblock()
                        }
                        POp::Close | POp::Connect | POp::Partial => {}
                    }
                }
            });
        }
        let quiet = sched::settle(600_000_000_000);
        sched::log("drain");
        // who is still inside a receive call?
        let blocked: Vec<usize> = sched::threads()
            .iter()
            .filter(|(n, st)| n.starts_with("cons") && matches!(st, TState::Blocked { on: Res::Condvar(_), .. }))
            .map(|(n, _)| n[4..].parse::<usize>().unwrap())
            .collect();
        // what is left in the queue
        let mut left: Vec<String> = vec![];
        if blocked.is_empty() {
            q.push(u64::MAX);
            loop {
                match q.pop() {
                    Some(v) if v == u64::MAX => break,
                    Some(v) => left.push(v.to_string()),
                    None => left.push("tok".into()),
                }
            }
        } else {
            let total: usize = prods.iter().map(|p| p.len()).sum();
            for _ in 0..total + 1 {
                if let Some(v) = q.try_pop() {
                    left.push(v.to_string());
                }
            }
            left.push("?".into());
        }
        (left, blocked, quiet)
    });
    let h = hist.lock().unwrap();
    let labels = map_labels(&rep);
    format!(
        "queue id={} seed={} ptimer={} preempt={} prods={} cons={} | labels={} hist={} left={} blocked={} quiet={} aborted={} clock={}",
        id,
        cfg.seed,
        cfg.p_timer,
        preempted(&rep),
        sc.prods.iter().map(|p| enc_p(p)).collect::<Vec<_>>().join("|"),
        sc.cons.iter().map(|c| enc_c(c)).collect::<Vec<_>>().join("|"),
        labels,
        h.iter().map(|c| c.join(",")).collect::<Vec<_>>().join("|"),
        left.join(","),
        blocked.iter().map(|b| b.to_string()).collect::<Vec<_>>().join(","),
        if quiet { 1 } else { 0 },
        if rep.aborted { 1 } else { 0 },
        rep.clock
    ) + &format!(" steps={}", rep.steps)
}

/// how often a thread was preempted while holding a mutex it had just taken
pub fn preempted(rep: &sched::Report) -> usize {
    rep.events.iter().filter(|e| e.what == "preempted").count()
}

/// Turns the runtime's event log into labels of the Lean LTS `Lts.Queue`:
///   +<ns> tick | c<t>:<call> | L<t> look | P<v>:<w|-> push | U:<w|-> unblock | T<t> timeout wake
/// Receiver thread ids are the consumer indices.
pub fn map_labels(rep: &sched::Report) -> String {
    use std::collections::HashMap;
    // runtime tid -> consumer index
    let mut cons_of: HashMap<usize, usize> = HashMap::new();
    for (tid, (name, _)) in rep.threads.iter().enumerate() {
        if let Some(rest) = name.strip_prefix("cons") {
            if let Ok(i) = rest.parse::<usize>() {
                cons_of.insert(tid, i);
            }
        }
    }
    let mut out: Vec<String> = vec![];
    let mut last_t = 0u64;
    let mut pending_push: HashMap<usize, String> = HashMap::new(); // producer tid -> "P<v>" / "U"
    let mut in_wait: HashMap<usize, bool> = HashMap::new();
    let mut emit = |out: &mut Vec<String>, t: u64, l: String, last_t: &mut u64| {
        if t > *last_t {
            out.push(format!("+{}", t - *last_t));
            *last_t = t;
        }
        out.push(l);
    };
    for e in &rep.events {
        if e.what == "drain" {
            break;
        }
        let w: Vec<&str> = e.what.split(' ').collect();
        match w[0] {
            "call" => {
                if let Some(&c) = cons_of.get(&e.tid) {
                    emit(&mut out, e.t, format!("c{}:{}", c, w[1]), &mut last_t);
                }
            }
            "push" => {
                pending_push.insert(e.tid, format!("P{}", w[1]));
            }
            "unblock" => {
                pending_push.insert(e.tid, "U".to_string());
            }
            "lock" if w.get(1).map_or(false, |s| s.starts_with("messages_queue.rs")) => {
                if let Some(&c) = cons_of.get(&e.tid) {
                    in_wait.insert(e.tid, false);
                    emit(&mut out, e.t, format!("L{}", c), &mut last_t);
                }
            }
            "wait" if w.get(1).map_or(false, |s| s.starts_with("messages_queue.rs")) => {
                in_wait.insert(e.tid, true);
            }
            "notify_one" if w.get(1).map_or(false, |s| s.starts_with("messages_queue.rs")) => {
                // a notification without a marker from the harness: a push made inside the library
                // (a connection thread queueing a request), reported without its value
                let p = match pending_push.remove(&e.tid) {
                    Some(p) => Some(p),
                    None if !cons_of.contains_key(&e.tid) => Some("P".to_string()),
                    None => None,
                };
                if let Some(p) = p {
                    let woke = match w.get(2) {
                        Some(x) if x.starts_with('t') => {
                            let tid: usize = x[1..].parse().unwrap_or(usize::MAX);
                            in_wait.insert(tid, false);
                            cons_of.get(&tid).map(|c| c.to_string()).unwrap_or_else(|| "?".into())
                        }
                        _ => "-".to_string(),
                    };
                    emit(&mut out, e.t, format!("{}:{}", p, woke), &mut last_t);
                }
            }
            "timer" => {
                if let Some(&c) = cons_of.get(&e.tid) {
                    if in_wait.get(&e.tid).cloned().unwrap_or(false) {
                        in_wait.insert(e.tid, false);
                        emit(&mut out, e.t, format!("T{}", c), &mut last_t);
                    }
                }
            }
            "spurious" => {
                if let Some(&c) = cons_of.get(&e.tid) {
                    if in_wait.get(&e.tid).cloned().unwrap_or(false) {
                        in_wait.insert(e.tid, false);
                        emit(&mut out, e.t, format!("S{}", c), &mut last_t);
                    }
                }
            }
            _ => {}
        }
    }
    out.join(",")
}
