// Scenario driver for `MessagesQueue` (leaf module of the generated copy) under verif_rt:
// producers push / unblock at chosen virtual times, consumers mix pop / try_pop / pop_timeout.
use super::*;
use messages_queue::MessagesQueue;

#[derive(Clone, Debug)]
pub enum POp {
    Sleep(u64), // µs
    Push(u64),
    Unblock,
}

#[derive(Clone, Debug)]
pub enum COp {
    Pop,
    Try,
    Timeout(u64), // µs
    Sleep(u64),
}

pub struct Scenario {
    pub prods: Vec<Vec<POp>>,
    pub cons: Vec<Vec<COp>>,
}

pub fn gen(rng: &mut Rng) -> Scenario {
    let np = rng.range(1, 3);
    let nc = rng.range(1, 4);
    let tmo = *rng.pick(&[5_000u64, 20_000]);
    let mut prods = vec![];
    let mut next = 1u64;
    for p in 0..np {
        let mut ops = vec![];
        let k = rng.range(0, 4);
        for _ in 0..k {
            if rng.chance(2, 3) {
                // sleeps chosen so that pushes land just before / at / after timeout expiry
                let d = *rng.pick(&[0u64, 100, 1_000, tmo - 900, tmo - 500, tmo - 100, tmo, tmo + 1_000, 2 * tmo - 100, 2 * tmo]);
                ops.push(POp::Sleep(d));
            }
            if rng.chance(1, 5) {
                ops.push(POp::Unblock);
            } else {
                ops.push(POp::Push((p as u64 + 1) * 1000 + next));
                next += 1;
            }
        }
        prods.push(ops);
    }
    let mut cons = vec![];
    for _ in 0..nc {
        let mut ops = vec![];
        let k = rng.range(1, 3);
        for _ in 0..k {
            match rng.below(8) {
                0 | 1 | 2 => ops.push(COp::Pop),
                3 => ops.push(COp::Try),
                4 | 5 | 6 => ops.push(COp::Timeout(tmo)),
                _ => ops.push(COp::Sleep(*rng.pick(&[100u64, tmo / 2, tmo]))),
            }
        }
        cons.push(ops);
    }
    Scenario { prods, cons }
}

fn enc_p(ops: &[POp]) -> String {
    ops.iter()
        .map(|o| match o {
            POp::Sleep(d) => format!("s{}", d),
            POp::Push(v) => format!("p{}", v),
            POp::Unblock => "u".to_string(),
        })
        .collect::<Vec<_>>()
        .join(",")
}
fn enc_c(ops: &[COp]) -> String {
    ops.iter()
        .map(|o| match o {
            COp::Pop => "pop".to_string(),
            COp::Try => "try".to_string(),
            COp::Timeout(t) => format!("to{}", t),
            COp::Sleep(d) => format!("s{}", d),
        })
        .collect::<Vec<_>>()
        .join(",")
}

pub fn run(id: usize, rng: &mut Rng) -> String {
    let sc = gen(rng);
    let cfg = Config { seed: rng.next(), p_timer: *rng.pick(&[0u64, 30, 200]), ..Config::default() };
    let hist: Arc<StdMutex<Vec<Vec<String>>>> = Arc::new(StdMutex::new(sc.cons.iter().map(|_| vec![]).collect()));
    let h2 = hist.clone();
    let prods = sc.prods.clone();
    let cons = sc.cons.clone();
    let ((left, blocked, quiet), rep) = sched::run(&cfg, move || {
        let q: Arc<MessagesQueue<u64>> = MessagesQueue::with_capacity(8);
        for (ci, ops) in cons.iter().enumerate() {
            let q = q.clone();
            let ops = ops.clone();
            let h = h2.clone();
            verif_rt::thread::spawn_named(&format!("cons{}", ci), move || {
                for op in ops {
                    let t0 = sched::now_ns();
                    let (name, res): (String, Option<Option<u64>>) = match op {
                        COp::Pop => {
                            h.lock().unwrap()[ci].push(format!("pop:{}:-:blocked", t0));
                            ("pop".into(), Some(q.pop()))
                        }
                        COp::Try => {
                            h.lock().unwrap()[ci].push(format!("try:{}:-:blocked", t0));
                            ("try".into(), Some(q.try_pop()))
                        }
                        COp::Timeout(t) => {
                            h.lock().unwrap()[ci].push(format!("to{}:{}:-:blocked", t, t0));
                            (format!("to{}", t), Some(q.pop_timeout(Duration::from_micros(t))))
                        }
                        COp::Sleep(d) => {
                            stdx::thread::sleep(Duration::from_micros(d));
                            ("s".into(), None)
                        }
                    };
                    if let Some(r) = res {
                        let t1 = sched::now_ns();
                        let mut g = h.lock().unwrap();
                        g[ci].pop();
                        g[ci].push(format!("{}:{}:{}:{}", name, t0, t1, match r { Some(v) => v.to_string(), None => "none".into() }));
                    }
                }
            });
        }
        for (pi, ops) in prods.iter().enumerate() {
            let q = q.clone();
            let ops = ops.clone();
            verif_rt::thread::spawn_named(&format!("prod{}", pi), move || {
                for op in ops {
                    match op {
                        POp::Sleep(d) => stdx::thread::sleep(Duration::from_micros(d)),
                        POp::Push(v) => {
                            sched::log(&format!("push {}", v));
                            q.push(v)
                        }
                        POp::Unblock => {
                            sched::log("unblock");
                            q.unblock()
                        }
                    }
                }
            });
        }
        let quiet = sched::settle(600_000_000_000);
        // who is still inside a receive call?
        let blocked: Vec<usize> = sched::threads()
            .iter()
            .filter(|(n, st)| n.starts_with("cons") && matches!(st, TState::Blocked { on: Res::Condvar(_), .. }))
            .map(|(n, _)| n[4..].parse::<usize>().unwrap())
            .collect();
        // what is left in the queue
        let mut left: Vec<String> = vec![];
        if blocked.is_empty() {
            q.push(u64::MAX);
            loop {
                match q.pop() {
                    Some(v) if v == u64::MAX => break,
                    Some(v) => left.push(v.to_string()),
                    None => left.push("tok".into()),
                }
            }
        } else {
            let total: usize = prods.iter().map(|p| p.len()).sum();
            for _ in 0..total + 1 {
                if let Some(v) = q.try_pop() {
                    left.push(v.to_string());
                }
            }
            left.push("?".into());
        }
        (left, blocked, quiet)
    });
    let h = hist.lock().unwrap();
    format!(
        "queue id={} seed={} ptimer={} prods={} cons={} | hist={} left={} blocked={} quiet={} aborted={} clock={}",
        id,
        cfg.seed,
        cfg.p_timer,
        sc.prods.iter().map(|p| enc_p(p)).collect::<Vec<_>>().join("|"),
        sc.cons.iter().map(|c| enc_c(c)).collect::<Vec<_>>().join("|"),
        h.iter().map(|c| c.join(",")).collect::<Vec<_>>().join("|"),
        left.join(","),
        blocked.iter().map(|b| b.to_string()).collect::<Vec<_>>().join(","),
        if quiet { 1 } else { 0 },
        if rep.aborted { 1 } else { 0 },
        rep.clock
    )
}
