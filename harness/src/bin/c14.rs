//! C14 harness: adversarial client input against the pristine crate, each case in a child
//! process with a process-wide panic hook and a counting global allocator.
//!   c14 parent <n>             — orchestrates children, prints one `conn` line per case
//!   c14 child <from> <to>      — runs cases [from, to) in this process
use std::alloc::{GlobalAlloc, Layout, System};
use std::io::Write;
use std::sync::atomic::{AtomicUsize, Ordering};
use verif_harness::connrun::{run_case, Action, ConnCase, Finish, Mode, RespSpec, Timing, WOp, READ_TO_END};
use verif_harness::{seed_from_env, Rng};

struct Counting;
static MAX_SINGLE: AtomicUsize = AtomicUsize::new(0);
static LIVE: AtomicUsize = AtomicUsize::new(0);
static PEAK: AtomicUsize = AtomicUsize::new(0);
static PANICS: AtomicUsize = AtomicUsize::new(0);

unsafe impl GlobalAlloc for Counting {
    unsafe fn alloc(&self, l: Layout) -> *mut u8 {
        MAX_SINGLE.fetch_max(l.size(), Ordering::Relaxed);
        let live = LIVE.fetch_add(l.size(), Ordering::Relaxed) + l.size();
        PEAK.fetch_max(live, Ordering::Relaxed);
        System.alloc(l)
    }
    unsafe fn dealloc(&self, p: *mut u8, l: Layout) {
        LIVE.fetch_sub(l.size(), Ordering::Relaxed);
        System.dealloc(p, l)
    }
    unsafe fn alloc_zeroed(&self, l: Layout) -> *mut u8 {
        MAX_SINGLE.fetch_max(l.size(), Ordering::Relaxed);
        let live = LIVE.fetch_add(l.size(), Ordering::Relaxed) + l.size();
        PEAK.fetch_max(live, Ordering::Relaxed);
        System.alloc_zeroed(l)
    }
    unsafe fn realloc(&self, p: *mut u8, l: Layout, new: usize) -> *mut u8 {
        MAX_SINGLE.fetch_max(new, Ordering::Relaxed);
        if new > l.size() {
            let live = LIVE.fetch_add(new - l.size(), Ordering::Relaxed) + (new - l.size());
            PEAK.fetch_max(live, Ordering::Relaxed);
        } else {
            LIVE.fetch_sub(l.size() - new, Ordering::Relaxed);
        }
        System.realloc(p, l, new)
    }
}

#[global_allocator]
static GLOBAL: Counting = Counting;

fn ok_resp() -> RespSpec {
    RespSpec { status: 200, hdrs: vec![], declared: Some(2), thr: None, pieces: vec![b"ok".to_vec()] }
}

fn action(kind: usize, blen: usize) -> Action {
    match kind % 8 {
        // the whole body in one `read_to_end` (what is allocated must follow what arrives, not what is declared)
        7 => Action { as_reader: 1, read_total: blen.saturating_add(1), buf: READ_TO_END, delay_ms: 0, fin: Finish::Respond(ok_resp()), zero_read: false },
        // the raw writer, taken without ever asking for the body (an unanswered expectation stays unanswered)
        5 => Action { as_reader: 0, read_total: 0, buf: 1, delay_ms: 0, fin: Finish::Writer(vec![WOp::W(b"HTTP/1.1 200 OK\r\nContent-Length: 2\r\n\r\nok".to_vec()), WOp::F]), zero_read: false },
        6 => Action { as_reader: 0, read_total: 0, buf: 1, delay_ms: 0, fin: Finish::Writer(vec![]), zero_read: false },
        0 => Action { as_reader: 0, read_total: 0, buf: 1, delay_ms: 0, fin: Finish::Respond(ok_resp()), zero_read: false },
        1 => Action { as_reader: 0, read_total: 0, buf: 1, delay_ms: 0, fin: Finish::Drop, zero_read: false },
        2 => Action { as_reader: 1, read_total: std::cmp::min(blen, 3), buf: 2, delay_ms: 0, fin: Finish::Respond(ok_resp()), zero_read: false },
        3 => Action { as_reader: 1, read_total: blen.saturating_add(1), buf: 4096, delay_ms: 0, fin: Finish::Respond(ok_resp()), zero_read: false },
        _ => Action { as_reader: 1, read_total: blen.saturating_add(1), buf: 65536, delay_ms: 0, fin: Finish::Drop, zero_read: false },
    }
}

/// the adversarial corpus; deterministic in (seed, index)
fn gen_case(i: usize, rng: &mut Rng) -> (ConnCase, String) {
    let fam = i % 16;
    let act = rng.below(8);
    let mut tag = String::new();
    let mut bytes: Vec<u8> = vec![];
    let mut blen = 0usize;
    match fam {
        0 | 1 => {
            // Content-Length from 0 to beyond usize::MAX, body absent / short / present
            let cl = *rng.pick(&["0", "1", "1024", "1025", "1000000", "4294967296", "90000000000", "9000000000000000000", "18446744073709551615", "18446744073709551616", "99999999999999999999999999999999"]);
            let sent = *rng.pick(&[0usize, 3, 1500]);
            // ... in HTTP/1.1 and 1.0, with and without an expectation
            let ver = *rng.pick(&["1.1", "1.1", "1.0"]);
            let exp = if rng.chance(1, 3) { "Expect: 100-continue\r\n" } else { "" };
            bytes.extend_from_slice(format!("POST /cl HTTP/{}\r\nHost: x\r\n{}Content-Length: {}\r\n\r\n", ver, exp, cl).as_bytes());
            bytes.extend(std::iter::repeat(b'b').take(sent));
            blen = sent;
            tag = format!("cl{}", cl.len());
        }
        2 | 3 => {
            // chunk sizes up to and beyond 16 hex digits
            let sz = *rng.pick(&["FFFFFFFFFFFFFFFF", "10000000000000000", "7fffffffffffffff", "ffffffff", "100000000", "-1", "+5", "5;ext=\u{7f}", ""]);
            bytes.extend_from_slice(format!("POST /ch HTTP/1.1\r\nTransfer-Encoding: chunked\r\n\r\n{}\r\nhello", sz).as_bytes());
            if rng.chance(1, 2) {
                bytes.extend_from_slice(b"\r\n0\r\n\r\n");
            }
            blen = 5;
            tag = "chunksize".into();
        }
        4 => {
            // thousands of headers
            let n = *rng.pick(&[1000usize, 5000, 20000]);
            bytes.extend_from_slice(b"GET /many HTTP/1.1\r\n");
            for k in 0..n {
                bytes.extend_from_slice(format!("X-{}: {}\r\n", k, k).as_bytes());
            }
            bytes.extend_from_slice(b"\r\n");
            tag = format!("headers{}", n);
        }
        5 => {
            // multi-megabyte lines
            let n = *rng.pick(&[100_000usize, 1_000_000, 3_000_000]);
            if rng.chance(1, 2) {
                bytes.extend_from_slice(b"GET /");
                bytes.extend(std::iter::repeat(b'u').take(n));
                bytes.extend_from_slice(b" HTTP/1.1\r\n\r\n");
            } else {
                bytes.extend_from_slice(b"GET /long HTTP/1.1\r\nX-Long: ");
                bytes.extend(std::iter::repeat(b'v').take(n));
                bytes.extend_from_slice(b"\r\n\r\n");
            }
            tag = format!("line{}", n);
        }
        6 => {
            // NUL / control / non-ASCII bytes, random garbage
            let n = rng.range(1, 400);
            for _ in 0..n {
                bytes.push(*rng.pick(&[0u8, 1, 7, 9, 10, 13, 27, 32, 58, 127, 128, 200, 255, b'G', b'E', b'T', b'/', b'H', b'1', b'.']));
            }
            if rng.chance(1, 2) {
                bytes.extend_from_slice(b"\r\n\r\n");
            }
            tag = "garbage".into();
        }
        7 => {
            // truncated everything: a valid conversation cut anywhere
            let full = b"POST /t HTTP/1.1\r\nHost: x\r\nContent-Length: 10\r\n\r\n0123456789GET /n HTTP/1.1\r\n\r\nPOST /c HTTP/1.1\r\nTransfer-Encoding: chunked\r\n\r\n5\r\nhello\r\n0\r\n\r\n";
            let k = rng.range(0, full.len());
            bytes.extend_from_slice(&full[..k]);
            blen = 10;
            tag = "truncated".into();
        }
        8 | 9 => {
            // TE lists with NaN / inf / exponents, many elements — the handler responds (sorts)
            let n = *rng.pick(&[1usize, 5, 21, 30, 64, 200]);
            let mut te = String::new();
            for k in 0..n {
                let q = *rng.pick(&["NaN", "nan", "inf", "-inf", "1e3", "0.5", "0", "1", "", "x", "-NaN", "1e-400", "340282350000000000000000000000000000000"]);
                let name = *rng.pick(&["chunked", "identity", "gzip", "trailers"]);
                // parameters of every shape, also empty and one-character ones
                match rng.below(6) {
                    0 => te.push_str(&format!("{}{};", if k > 0 { ", " } else { "" }, name)),
                    1 => te.push_str(&format!("{}{}; {}", if k > 0 { ", " } else { "" }, name, *rng.pick(&["", "x", "q", "Q=1", "q =1"]))),
                    _ => te.push_str(&format!("{}{};q={}", if k > 0 { ", " } else { "" }, name, q)),
                }
            }
            bytes.extend_from_slice(format!("GET /te HTTP/1.1\r\nTE: {}\r\n\r\n", te).as_bytes());
            tag = format!("te{}", n);
        }
        13 => {
            // run by `rstbody_case`, not through `run_case`
            tag = "rstbody".into();
        }
        15 => {
            // run by `rstpipe_case`, not through `run_case`
            tag = "rstpipe".into();
        }
        14 => {
            // HEAD, the client insisting on identity coding (HTTP/1.0, or TE: identity), answered
            // with a body of undeclared length
            let v = *rng.pick(&["HEAD /h HTTP/1.0\r\nHost: x\r\n\r\n", "HEAD /h HTTP/1.1\r\nHost: x\r\nTE: identity\r\n\r\n", "HEAD /h HTTP/1.0\r\nConnection: keep-alive\r\n\r\nGET /n HTTP/1.0\r\n\r\n"]);
            bytes.extend_from_slice(v.as_bytes());
            tag = "headid".into();
        }
        12 => {
            // clients that send a whole request and reset the connection at once, ahead of an
            // ordinary conversation on the same server
            verif_harness::connrun::RST_FIRST.store(*rng.pick(&[1usize, 10, 40]), Ordering::SeqCst);
            bytes.extend_from_slice(b"GET /after-rst HTTP/1.1\r\nHost: x\r\n\r\n");
            tag = "rst".into();
        }
        10 => {
            // Expect / Connection / version corner cases with odd bytes
            let v = *rng.pick(&["Expect: 100-continue\r\nContent-Length: 5\r\n\r\nhello", "Connection: upgrade\r\n\r\n\u{0}\u{1}raw", "Expect: \u{7f}\r\n\r\n", "Content-Length: 5\r\nContent-Length: 6\r\n\r\nhello!", ": empty-name\r\n\r\n",
                                " Host: folded-first\r\n\r\n", "\t\r\nHost: x\r\n\r\n", " \r\n\r\n"]);
            // ... in every protocol version the request line can name
            let ver = *rng.pick(&["1.1", "1.1", "1.0", "0.9", "2.0", "3.0", "", "1", "1.", ".1", "11"]);
            if rng.chance(1, 3) {
                // ... and request lines with empty, missing or surplus fields
                let rl = *rng.pick(&["GET  HTTP/1.1", " / HTTP/1.1", "GET / ", "  ", " ", "GET  / HTTP/1.1", "GET /\tHTTP/1.1", " GET / HTTP/1.1", "GET / HTTP/1.1 ", "GET / HTTP/", "GET / http/1.1",
                                     "/ HTTP/1.1", "  HTTP/1.1", "GET  HTTP/1.0", "CONNECT  HTTP/1.1", "GET / HTTP/1.1\t", "GET /  ", "\tGET / HTTP/1.1"]);
                bytes.extend_from_slice(format!("{}\r\nHost: x\r\n\r\n", rl).as_bytes());
            } else {
                bytes.extend_from_slice(format!("POST /x HTTP/{}\r\n{}", ver, v).as_bytes());
            }
            if rng.chance(1, 2) {
                bytes.extend_from_slice(b"GET /next HTTP/1.1\r\nHost: x\r\n\r\n");
            }
            blen = 5;
            tag = "corner".into();
        }
        _ => {
            // pipelines of tiny requests (many responses)
            let n = *rng.pick(&[10usize, 200, 1000, 20000]);
            let v2 = rng.chance(1, 2);
            for _ in 0..n {
                bytes.extend_from_slice(if v2 { b"GET /p HTTP/2.0\r\n\r\n" } else { b"GET /p HTTP/1.1\r\n\r\n" });
            }
            tag = format!("pipeline{}{}", if v2 { "v" } else { "" }, n);
        }
    }
    let mut a = action(act, blen);
    if tag == "headid" {
        let n = *rng.pick(&[0usize, 10, 5000]);
        a.fin = Finish::Respond(RespSpec { status: 200, hdrs: vec![], declared: None, thr: None, pieces: vec![vec![b'u'; n]] });
    }
    let c = ConnCase { bytes, mode: Mode::HalfClose, hold: None, segs: vec![], script: vec![a], unix: false, intent: format!("i_fam=c14 i_tag={} i_act={}{}", tag, act, if act % 8 == 7 { " bigcase=1" } else { "" }) };
    (c, tag)
}

/// A client that resets the connection while the handler is reading a streamed body: the read
/// fails with an I/O error; the handler reads again, then answers or drops the request.  Nothing of
/// this may panic.  The model is not run on these lines (`bigcase=1`): the controlled `cut` family
/// compares reset-inside-a-body with the model; here only the process-level observations count.
fn rstbody_case(id: usize, rng: &mut Rng) -> String {
    use std::io::Read;
    let server = std::sync::Arc::new(tiny_http::Server::http("127.0.0.1:0").unwrap());
    let ip = server.server_addr().to_ip().unwrap();
    let framing = rng.below(3);
    let respond = rng.chance(1, 2);
    let s2 = server.clone();
    let (tx, rx) = std::sync::mpsc::channel();
    std::thread::spawn(move || {
        if let Ok(Some(mut rq)) = s2.recv_timeout(std::time::Duration::from_secs(2)) {
            let mut buf = [0u8; 512];
            let mut errs = 0;
            for _ in 0..50 {
                match rq.as_reader().read(&mut buf) {
                    Ok(0) => break,
                    Ok(_) => {}
                    Err(_) => {
                        errs += 1;
                        if errs >= 2 {
                            break;
                        }
                    }
                }
            }
            if respond {
                let _ = rq.respond(tiny_http::Response::from_string("late"));
            } else {
                drop(rq);
            }
        }
        let _ = tx.send(());
    });
    let head: &[u8] = match framing {
        0 => b"POST /rstbody HTTP/1.1\r\nHost: x\r\nContent-Length: 5000\r\n\r\nhello",
        1 => b"POST /rstbody HTTP/1.1\r\nHost: x\r\nTransfer-Encoding: chunked\r\n\r\n1000\r\nhello",
        _ => b"POST /rstbody HTTP/1.1\r\nHost: x\r\nExpect: 100-continue\r\nContent-Length: 700\r\n\r\nhello",
    };
    if let Ok(mut c) = std::net::TcpStream::connect(ip) {
        let _ = c.write_all(head);
        std::thread::sleep(std::time::Duration::from_millis(40));
        verif_harness::connrun::abort_on_close(&c);
        drop(c);
    }
    let hang = rx.recv_timeout(std::time::Duration::from_secs(4)).is_err();
    drop(server);
    format!(
        "conn id={} bytes= bigcase=1 mode=reset hold=none segs=none unix=0 script={} i_fam=c14 i_tag=rstbody i_act=3 | delivered= wire= eof=1 results= hang={} dates=ok",
        id,
        verif_harness::connrun::action_enc(&action(3, 0)),
        if hang { 1 } else { 0 }
    )
}

/// Three pipelined requests are with the application when the client resets the connection; then
/// they are answered (or dropped) one after the other.  Writing to the dead socket fails somewhere
/// along the way; none of the later answers may panic because of it.
fn rstpipe_case(id: usize, rng: &mut Rng) -> String {
    let server = std::sync::Arc::new(tiny_http::Server::http("127.0.0.1:0").unwrap());
    let ip = server.server_addr().to_ip().unwrap();
    let big = rng.chance(1, 2);
    let drop_last = rng.chance(1, 2);
    let s2 = server.clone();
    let (tx, rx) = std::sync::mpsc::channel();
    let (go_tx, go_rx) = std::sync::mpsc::channel::<()>();
    std::thread::spawn(move || {
        let mut held = vec![];
        for _ in 0..3 {
            if let Ok(Some(rq)) = s2.recv_timeout(std::time::Duration::from_secs(2)) {
                held.push(rq);
            }
        }
        let _ = go_tx.send(());
        std::thread::sleep(std::time::Duration::from_millis(60));
        let n = held.len();
        for (k, rq) in held.into_iter().enumerate() {
            if drop_last && k + 1 == n {
                drop(rq);
            } else {
                let body = vec![b'r'; if big { 3000 } else { 10 }];
                let _ = rq.respond(tiny_http::Response::from_data(body));
            }
        }
        let _ = tx.send(());
    });
    if let Ok(mut c) = std::net::TcpStream::connect(ip) {
        let _ = c.write_all(b"GET /p0 HTTP/1.1\r\nHost: x\r\n\r\nGET /p1 HTTP/1.1\r\nHost: x\r\n\r\nGET /p2 HTTP/1.1\r\nHost: x\r\n\r\n");
        let _ = go_rx.recv_timeout(std::time::Duration::from_secs(3));
        verif_harness::connrun::abort_on_close(&c);
        drop(c);
    }
    let hang = rx.recv_timeout(std::time::Duration::from_secs(5)).is_err();
    drop(server);
    format!(
        "conn id={} bytes= bigcase=1 mode=reset hold=none segs=none unix=0 script={} i_fam=c14 i_tag=rstpipe i_act=0 | delivered= wire= eof=1 results= hang={} dates=ok",
        id,
        verif_harness::connrun::action_enc(&action(0, 0)),
        if hang { 1 } else { 0 }
    )
}

fn child(from: usize, to: usize) {
    let seed = seed_from_env();
    std::panic::set_hook(Box::new(|_| {
        PANICS.fetch_add(1, Ordering::SeqCst);
    }));
    let tmpdir = std::env::var("VERIF_TMP").unwrap_or_else(|_| "/verif/build/tmp".into());
    let stdout = std::io::stdout();
    for i in from..to {
        let mut rng = Rng::new(seed.wrapping_mul(7_000_003).wrapping_add(i as u64));
        let (c, _tag) = gen_case(i, &mut rng);
        {
            let mut o = stdout.lock();
            writeln!(o, "#begin {}", i).unwrap();
            o.flush().unwrap();
        }
        let sent = c.bytes.len();
        PANICS.store(0, Ordering::SeqCst);
        MAX_SINGLE.store(0, Ordering::SeqCst);
        PEAK.store(LIVE.load(Ordering::SeqCst), Ordering::SeqCst);
        let live0 = LIVE.load(Ordering::SeqCst);
        let tm = Timing { quiet_ms: 250, deadline_ms: 12000, seg_pause_us: 0 };
        let line = match i % 16 {
            13 => rstbody_case(i, &mut rng),
            15 => rstpipe_case(i, &mut rng),
            _ => run_case(i as u64, &c, &tmpdir, &tm),
        };
        let maxalloc = MAX_SINGLE.load(Ordering::SeqCst);
        let peak = PEAK.load(Ordering::SeqCst).saturating_sub(live0);
        let panics = PANICS.load(Ordering::SeqCst);
        // big inputs: the model is not run on them (the driver would need minutes); keep the observations
        let line = if sent > 200_000 {
            let mut kept: Vec<String> = vec![];
            for tok in line.split(' ') {
                if tok.starts_with("bytes=") {
                    kept.push("bytes=".to_string());
                    kept.push("bigcase=1".to_string());
                } else {
                    kept.push(tok.to_string());
                }
            }
            kept.join(" ")
        } else {
            line
        };
        let mut o = stdout.lock();
        writeln!(o, "{} panicked={} maxalloc={} peak={} sent={} abort=0", line, if panics > 0 { 1 } else { 0 }, maxalloc, peak, sent).unwrap();
        o.flush().unwrap();
    }
}

fn parent(n: usize) {
    let exe = std::env::current_exe().unwrap();
    let mut from = 0usize;
    let stdout = std::io::stdout();
    while from < n {
        let to = std::cmp::min(n, from + 200);
        let out = std::process::Command::new(&exe).arg("child").arg(from.to_string()).arg(to.to_string()).output().expect("spawn child");
        let text = String::from_utf8_lossy(&out.stdout).to_string();
        let mut last_begin: Option<usize> = None;
        let mut done = from;
        let mut o = stdout.lock();
        for l in text.lines() {
            if let Some(r) = l.strip_prefix("#begin ") {
                last_begin = r.trim().parse().ok();
            } else if l.starts_with("conn ") {
                writeln!(o, "{}", l).unwrap();
                done = last_begin.map(|x| x + 1).unwrap_or(done);
                last_begin = None;
            }
        }
        if out.status.success() && last_begin.is_none() {
            from = to;
            continue;
        }
        // the child died inside a case: report it as an abort and go on after it
        let dead = last_begin.unwrap_or(done);
        let seed = seed_from_env();
        let mut rng = Rng::new(seed.wrapping_mul(7_000_003).wrapping_add(dead as u64));
        let (c, _) = gen_case(dead, &mut rng);
        let bytes_field = if c.bytes.len() > 200_000 { "bytes= bigcase=1".to_string() } else { format!("bytes={}", verif_harness::hex(&c.bytes)) };
        writeln!(
            o,
            "conn id={} {} mode=halfclose hold=none segs=none unix=0 script={} {} | delivered= wire= eof=0 results= hang=0 dates=ok panicked=0 maxalloc=0 peak=0 sent={} abort=1 status={:?}",
            dead,
            bytes_field,
            c.script.iter().map(verif_harness::connrun::action_enc).collect::<Vec<_>>().join("|"),
            c.intent,
            c.bytes.len(),
            out.status
        )
        .unwrap();
        from = dead + 1;
    }
}

fn main() {
    let args: Vec<String> = std::env::args().collect();
    match args.get(1).map(|s| s.as_str()) {
        Some("child") => child(args[2].parse().unwrap(), args[3].parse().unwrap()),
        Some("parent") => parent(args.get(2).and_then(|s| s.parse().ok()).unwrap_or(200)),
        _ => {
            eprintln!("usage: c14 parent <n> | c14 child <from> <to>");
            std::process::exit(2);
        }
    }
}
