//! Controlled-build harness: the generated copy of /repo/src (std:: → verif_rt::stdx::) runs
//! under the deterministic scheduler, virtual clock and in-memory network of `verif_rt`.
//! Usage: controlled <kind> <n> [first_id]      kind ∈ queue | pool | seq | …
#![allow(dead_code)]
use std::io::Write;
use std::sync::{Arc, Mutex as StdMutex};
use std::time::Duration;
use verif_harness::{seed_from_env, Rng};
use verif_rt::sched::{self, Config, Res, TState};
use verif_rt::stdx;

#[path = "../../../build/th_rt/src/util/messages_queue.rs"]
mod messages_queue;
#[path = "../../../build/th_rt/src/util/task_pool.rs"]
mod task_pool;
#[path = "../../../build/th_rt/src/util/sequential.rs"]
mod sequential;

mod ctl_queue {
    include!("../ctl_queue.rs");
}
mod ctl_srvq {
    include!("../ctl_srvq.rs");
}
mod ctl_pool {
    include!("../ctl_pool.rs");
}
mod ctl_seq {
    include!("../ctl_seq.rs");
}
mod ctl_conn {
    include!("../ctl_conn.rs");
}
mod ctl_scen {
    include!("../ctl_scen.rs");
}

fn main() {
    let args: Vec<String> = std::env::args().collect();
    let kind = args.get(1).map(|s| s.as_str()).unwrap_or("");
    let n: usize = args.get(2).and_then(|s| s.parse().ok()).unwrap_or(100);
    let first: usize = args.get(3).and_then(|s| s.parse().ok()).unwrap_or(0);
    let seed = seed_from_env();
    if std::env::var("VERIF_DEBUG").is_ok() {
        std::panic::set_hook(Box::new(|i| eprintln!("PANIC {}", i)));
    } else {
        std::panic::set_hook(Box::new(|_| {}));
    }
    let stdout = std::io::stdout();
    let mut out = std::io::BufWriter::new(stdout.lock());
    for i in first..first + n {
        // every scenario derives its own PRNG from (seed, i): batches can be split across processes
        let mut rng = Rng::new(seed.wrapping_mul(1_000_003).wrapping_add(i as u64));
        let fam: Option<fn(usize, &mut Rng, &mut Vec<String>)> = match kind {
            "seg" => Some(ctl_scen::seg_family),
            "cut" => Some(ctl_scen::cut_family),
            "resperr" => Some(ctl_scen::resperr_family),
            "mt" => Some(ctl_scen::mt_family),
            "ahead" => Some(ctl_scen::ahead_family),
            "vanish" => Some(ctl_scen::vanish_family),
            "vanishdata" => Some(ctl_scen::vanishdata_family),
            "idle" => Some(ctl_scen::idle_family),
            "midline" => Some(ctl_scen::midline_family),
            "expmt" => Some(ctl_scen::expmt_family),
            "par" => Some(ctl_scen::par_family),
            _ => None,
        };
        if let Some(f) = fam {
            let mut lines = vec![];
            // a scenario in which the code under test deadlocks the driver thread too is unwound by
            // the runtime: it is reported as an aborted run
            let r = std::panic::catch_unwind(std::panic::AssertUnwindSafe(|| {
                let mut ls = vec![];
                f(i * 1000, &mut rng, &mut ls);
                ls
            }));
            match r {
                Ok(ls) => lines = ls,
                Err(_) => lines.push(format!(
                    "conn id={} bytes= mode=halfclose hold=none segs=none unix=0 script= i_fam={} | delivered= wire= eof=0 results= hang=1 dates=ok fresh=0 received=0 aborted=1",
                    i * 1000,
                    kind
                )),
            }
            for (j, l) in lines.iter().enumerate() {
                // unique ids within a family
                let l = l.replacen(&format!("conn id={}", i * 1000), &format!("conn id={}", i * 1000 + j), 1);
                writeln!(out, "{}", l).unwrap();
            }
            continue;
        }
        let line = std::panic::catch_unwind(std::panic::AssertUnwindSafe(|| match kind {
            "queue" => ctl_queue::run(i, &mut rng),
            "srvq" => ctl_srvq::run(i, &mut rng),
            "srvp" => ctl_srvq::run_pool(i, &mut rng),
            "backlog" => ctl_srvq::run_backlog(i, &mut rng),
            "pool" => ctl_pool::run(i, &mut rng),
            "seq" => ctl_seq::run(i, &mut rng),
            _ => {
                eprintln!("usage: controlled queue|pool|seq <n> [first]");
                std::process::exit(2);
            }
        }))
        .unwrap_or_else(|_| match kind {
            // the runtime unwound the driver thread out of a deadlock: an aborted run
            "queue" | "srvq" => format!("queue id={} anon=1 burst=0 seed=0 ptimer=0 prods= cons= | labels= hist= left=? blocked= quiet=0 aborted=1 clock=0", i),
            "pool" | "srvp" => format!("pool id={} anon={} burst=0 seed=0 ptimer=0 | labels= started=never live_burst=0 live_idle=0 live_dropped=0 live_end=0 quiet=000 aborted=1 clock=0", i, if kind == "srvp" { 1 } else { 0 }),
            "backlog" => format!("srv id={} kind=backlog conns=0 n=0 taken=0 answered=0 base=0 after_drop=0 after=0 aborted=1 clock=0", i),
            _ => format!("seq id={} seed=0 progs= | labels= sock= quiet=0 aborted=1", i),
        });
        writeln!(out, "{}", line).unwrap();
    }
}
