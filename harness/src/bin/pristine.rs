//! Pristine-build harness: drives the crate exactly as it is in /repo through its public API.
//! Usage: pristine resp <mode> <n> <full>     mode ∈ random | c05 | c04 | all
use std::io::Write;
use verif_harness::{respgen, seed_from_env, Rng};

fn main() {
    let args: Vec<String> = std::env::args().collect();
    let kind = args.get(1).map(|s| s.as_str()).unwrap_or("");
    let seed = seed_from_env();
    let mut rng = Rng::new(seed);
    let tmpdir = std::env::var("VERIF_TMP").unwrap_or_else(|_| "/verif/build/tmp".into());
    std::fs::create_dir_all(&tmpdir).ok();
    // panics inside the library are observations, not harness failures: keep stderr quiet
    std::panic::set_hook(Box::new(|_| {}));
    let stdout = std::io::stdout();
    let mut out = std::io::BufWriter::new(stdout.lock());
    match kind {
        "resp" => {
            let mode = args.get(2).map(|s| s.as_str()).unwrap_or("random");
            let n: usize = args.get(3).and_then(|s| s.parse().ok()).unwrap_or(500);
            let full = args.get(4).map(|s| s == "1").unwrap_or(false);
            let mut cases = vec![];
            if mode == "c05" || mode == "all" {
                cases.extend(respgen::enumerate_c05(full));
            }
            if mode == "c04" || mode == "all" {
                cases.extend(respgen::enumerate_c04(&mut rng, full));
            }
            if mode == "random" || mode == "all" || n > 0 {
                for _ in 0..n {
                    cases.push(respgen::gen_random(&mut rng));
                }
            }
            for (i, c) in cases.iter().enumerate() {
                let line = respgen::run_case(i as u64, c, &tmpdir);
                writeln!(out, "{}", line).unwrap();
            }
        }
        _ => {
            eprintln!("usage: pristine resp <mode> <n> <full>");
            std::process::exit(2);
        }
    }
}
