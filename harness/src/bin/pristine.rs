//! Pristine-build harness: drives the crate exactly as it is in /repo through its public API.
//! Usage: pristine resp <mode> <n> <full>     mode ∈ random | c05 | c04 | all
use std::io::Write;
use verif_harness::{respgen, seed_from_env, Rng};

fn run_conn_cases<W: Write>(cases: &[verif_harness::connrun::ConnCase], tmpdir: &str, out: &mut W) {
    use verif_harness::connrun::{run_case, Timing};
    let workers: usize = std::env::var("VERIF_JOBS").ok().and_then(|s| s.parse().ok()).unwrap_or(12);
    let next = std::sync::atomic::AtomicUsize::new(0);
    let results: Vec<std::sync::Mutex<Option<String>>> = cases.iter().map(|_| std::sync::Mutex::new(None)).collect();
    std::thread::scope(|sc| {
        for _ in 0..workers {
            sc.spawn(|| loop {
                let i = next.fetch_add(1, std::sync::atomic::Ordering::SeqCst);
                if i >= cases.len() { break; }
                // every case leaves its server's pool workers behind for up to the idle period
                // (5 s): do not let them pile up into tens of thousands of threads
                if i % 16 == 0 {
                    while std::fs::read_dir("/proc/self/task").map(|d| d.count()).unwrap_or(0) > 2500 {
                        std::thread::sleep(std::time::Duration::from_millis(50));
                    }
                }
                let line = run_case(i as u64, &cases[i], tmpdir, &Timing::default());
                *results[i].lock().unwrap() = Some(line);
            });
        }
    });
    for r in results {
        writeln!(out, "{}", r.into_inner().unwrap().unwrap_or_default()).unwrap();
    }
}

fn main() {
    let args: Vec<String> = std::env::args().collect();
    let kind = args.get(1).map(|s| s.as_str()).unwrap_or("");
    let seed = seed_from_env();
    let mut rng = Rng::new(seed);
    let tmpdir = std::env::var("VERIF_TMP").unwrap_or_else(|_| "/verif/build/tmp".into());
    std::fs::create_dir_all(&tmpdir).ok();
    // panics inside the library are observations, not harness failures: keep stderr quiet
    std::panic::set_hook(Box::new(|_| {}));
    let stdout = std::io::stdout();
    let mut out = std::io::BufWriter::new(stdout.lock());
    match kind {
        "resp" => {
            let mode = args.get(2).map(|s| s.as_str()).unwrap_or("random");
            let n: usize = args.get(3).and_then(|s| s.parse().ok()).unwrap_or(500);
            let full = args.get(4).map(|s| s == "1").unwrap_or(false);
            let mut cases = vec![];
            if mode == "c05" || mode == "all" {
                cases.extend(respgen::enumerate_c05(full));
            }
            if mode == "c04" || mode == "all" {
                cases.extend(respgen::enumerate_c04(&mut rng, full));
            }
            if mode == "random" || mode == "all" || n > 0 {
                for _ in 0..n {
                    cases.push(respgen::gen_random(&mut rng));
                }
            }
            for (i, c) in cases.iter().enumerate() {
                // "the current time" must hold for every response, not only for a thread's first one:
                // all cases run on this thread, and one pause longer than the Date tolerance (2 s)
                // separates the first few from the rest
                if i == 5 && cases.len() > 50 {
                    std::thread::sleep(std::time::Duration::from_millis(2300));
                }
                let line = respgen::run_case(i as u64, c, &tmpdir);
                writeln!(out, "{}", line).unwrap();
            }
        }
        "conn" => {
            use verif_harness::conngen as g;
            use verif_harness::connrun::{run_case, ConnCase, Timing};
            let gen = args.get(2).map(|s| s.as_str()).unwrap_or("mixed");
            let n: usize = args.get(3).and_then(|s| s.parse().ok()).unwrap_or(100);
            let mut cases: Vec<ConnCase> = vec![];
            for g1 in gen.split('+') {
                match g1 {
                    "c02" => (0..n).for_each(|_| cases.push(g::gen_c02(&mut rng))),
                    "c03" => (0..n).for_each(|i| cases.push(if i % 10 == 9 { g::gen_upgrade(&mut rng) } else { g::gen_body(&mut rng, false, i % 7 == 0) })),
                    "c09" => (0..n).for_each(|i| {
                        // one body far above every buffer per 250 cases
                        if i % 250 == 7 { g::HUGE.with(|h| h.set(true)); }
                        if i % 500 == 133 { g::HUGER.with(|h| h.set(true)); }
                        // an upgrade offer's body is the rest of the stream, taken up or not
                        if i % 20 == 11 { cases.push(g::gen_upgrade(&mut rng)); return; }
                        cases.push(g::gen_body(&mut rng, true, false))
                    }),
                    "bigunread" => (0..n).for_each(|i| cases.push(g::gen_big_unread(&mut rng, i))),
                    "sweep" => (0..n).for_each(|i| cases.push(g::gen_c02_sweep(&mut rng, i))),
                    "long" => (0..n).for_each(|i| cases.push(g::gen_long(&mut rng, i))),
                    "hold" => (0..n).for_each(|_| cases.push(g::gen_hold(&mut rng))),
                    "respfail" => (0..n).for_each(|_| cases.push(g::gen_respfail(&mut rng))),
                    "badhold" => (0..n).for_each(|i| cases.push(g::gen_bad_expect_hold(&mut rng, i % 3))),
                    "c12" => (0..n).for_each(|i| cases.push(if i % 60 == 59 || i % 60 == 29 { g::gen_c12_stalled(&mut rng, i % 60 == 29) } else { g::gen_c12(&mut rng) })),
                    "c18" => (0..n).for_each(|_| cases.push(g::gen_c18(&mut rng))),
                    "mixed" => (0..n).for_each(|_| cases.push(g::gen_mixed(&mut rng))),
                    "c10" => {
                        // every malformed class at every pipeline position, early and late answers
                        let mut classes: Vec<(&'static str, Vec<u8>)> = vec![];
                        for b in g::BAD_400 { classes.push(("e400", b.to_vec())); }
                        for b in g::BAD_417 { classes.push(("e417", b.to_vec())); }
                        for b in g::BAD_505 { classes.push(("e505", b.to_vec())); }
                        {
                            // a rejected request with a body larger than every buffer: it must be skipped
                            let mut big = b"PUT /v3 HTTP/3.0\r\nContent-Length: 5000\r\n\r\n".to_vec();
                            big.extend(std::iter::repeat(b'x').take(5000));
                            classes.push(("e505", big));
                        }
                        for b in g::BAD_SILENT { classes.push(("silent", b.to_vec())); }
                        let reps = std::cmp::max(1, n / 100);
                        for _ in 0..reps * 30 {
                            cases.push(g::gen_refused_run(&mut rng));
                        }
                        for _ in 0..reps {
                            for (cl, raw) in &classes {
                                for pos in 0..4 {
                                    for late in [false, true] {
                                        if late && pos == 0 { continue; }
                                        cases.push(g::gen_bad(&mut rng, cl, raw, pos, late));
                                    }
                                }
                            }
                        }
                    }
                    "c16" => {
                        let reps = std::cmp::max(1, n / 100);
                        for k in 0..reps * 30 {
                            cases.push(g::gen_fold_repeat(&mut rng, k));
                        }
                        for _ in 0..reps {
                            for raw in g::smuggle_variants() {
                                for pos in 0..3 {
                                    cases.push(g::gen_bad(&mut rng, "smug", &raw, pos, false));
                                }
                            }
                        }
                    }
                    _ => {}
                }
            }
            run_conn_cases(&cases, &tmpdir, &mut out);
            let _ = (run_case, Timing::default());
        }
        "srv" => {
            use verif_harness::srvrun as sv;
            let what = args.get(2).map(|s| s.as_str()).unwrap_or("drop");
            let n: usize = args.get(3).and_then(|s| s.parse().ok()).unwrap_or(4);
            let mut jobs: Vec<Box<dyn FnOnce() -> String + Send>> = vec![];
            let mut id = 0usize;
            for w in what.split('+') {
                match w {
                    "drop" => for k in 0..n { let t = tmpdir.clone(); let i = id; id += 1;
                        if k % 6 == 5 { jobs.push(Box::new(move || sv::drop_dead_unix_case(i, &t))); }
                        else if k % 3 == 2 { jobs.push(Box::new(move || sv::drop_queued_case(i))); }
                        else { jobs.push(Box::new(move || sv::drop_case(i, k % 2 == 1, &t))); } },
                    "burst" => for k in 0..n { let i = id; id += 1; let sz = [5usize, 16, 4, 8, 40, 200][k % 6]; let held = [0usize, 1, 3, 0, 2][(k / 5 + k) % 5]; jobs.push(Box::new(move || sv::burst_case_held(i, sz, held))); },
                    // one reclaim case per process (thread counts are per process): n = burst size
                    "reclaim" => { let i = id; id += 1; jobs.push(Box::new(move || sv::reclaim_case(i, n))); },
                    _ => {}
                }
            }
            // thread counts are per process: the reclaim cases run one after another, nothing else in parallel
            for j in jobs {
                writeln!(out, "{}", j()).unwrap();
            }
        }
        "replay" => {
            let path = args.get(2).expect("replay file");
            let text = std::fs::read_to_string(path).expect("read replay file");
            let mut conn_cases = vec![];
            for l in text.lines() {
                if l.starts_with('#') || l.trim().is_empty() { continue; }
                if let Some(c) = verif_harness::connrun::case_from_line(l) { conn_cases.push(c); }
                else if l.starts_with("resp ") { writeln!(out, "{}", l).unwrap(); }
            }
            run_conn_cases(&conn_cases, &tmpdir, &mut out);
        }
        _ => {
            eprintln!("usage: pristine resp <mode> <n> <full>");
            std::process::exit(2);
        }
    }
}
