// Scenario driver for `TaskPool` (leaf module of the generated copy) under verif_rt:
// bursts of tasks that block on a gate (keep-alive connections waiting for their client), then
// idleness, then pool drop.
use super::*;
use task_pool::TaskPool;

fn live_workers() -> usize {
    sched::threads().iter().filter(|(n, st)| n.starts_with("task_pool.rs") && *st != TState::Finished).count()
}

pub fn run(id: usize, rng: &mut Rng) -> String {
    // bursts: (count, gap before the burst in µs)
    let nb = rng.range(1, 3);
    let mut bursts: Vec<(usize, u64)> = vec![];
    for _ in 0..nb {
        let c = *rng.pick(&[1usize, 2, 3, 4, 5, 5, 6, 8, 16, 40]);
        let gap = *rng.pick(&[0u64, 0, 10, 1_000, 6_000_000]);
        bursts.push((c, gap));
    }
    let presettle = rng.chance(2, 3);
    let trickle: usize = if rng.chance(1, 3) { 9 } else { 0 };
    let total: usize = bursts.iter().map(|b| b.0).sum();
    let short: Vec<bool> = (0..total).map(|_| rng.chance(1, 5)).collect();
    let cfg = Config { seed: rng.next(), p_timer: *rng.pick(&[0u64, 0, 20]), p_spurious: *rng.pick(&[0u64, 0, 0, 40, 200]), p_preempt: *rng.pick(&[0u64, 0, 0, 100, 400]), max_steps: 100_000, ..Config::default() };
    let b2 = bursts.clone();
    let s2 = short.clone();
    let ((started, after_burst, idle, dropped, q1, q2, q3, trickle_live), rep) = sched::run(&cfg, move || {
        let started: Arc<StdMutex<Vec<Option<u64>>>> = Arc::new(StdMutex::new(vec![None; total]));
        let gate = Arc::new((stdx::sync::Mutex::new(false), stdx::sync::Condvar::new()));
        let pool = TaskPool::new();
        if presettle {
            sched::settle(1_000_000);
        }
        let mut k = 0;
        for (count, gap) in &b2 {
            if *gap > 0 {
                stdx::thread::sleep(Duration::from_micros(*gap));
            }
            for _ in 0..*count {
                let st = started.clone();
                let g = gate.clone();
                let idx = k;
                let is_short = s2[k];
                let mut ran = false;
                sched::log(&format!("dispatch {}", idx));
                pool.spawn(Box::new(move || {
                    if ran {
                        return;
                    }
                    ran = true;
                    st.lock().unwrap()[idx] = Some(sched::now_ns());
                    sched::log(&format!("start {}", idx));
                    if !is_short {
                        let mut open = g.0.lock().unwrap();
                        while !*open {
                            open = g.1.wait(open).unwrap();
                        }
                    }
                    sched::log(&format!("end {}", idx));
                }));
                k += 1;
            }
        }
        // nothing else happens: no task ends, no "connection" closes (gates stay shut)
        let q1 = sched::settle(4_000_000_000);
        let snapshot = started.lock().unwrap().clone();
        let after_burst = live_workers();
        // release everybody, let the idle period pass
        {
            let mut open = gate.0.lock().unwrap();
            *open = true;
            gate.1.notify_all();
        }
        // light traffic: one short task per second; surplus workers must still retire although
        // the pool is never completely silent for five seconds
        let mut trickle_live = 0usize;
        if trickle > 0 {
            sched::settle(500_000_000);
            for j in 0..trickle {
                stdx::thread::sleep(Duration::from_millis(1000));
                let st = started.clone();
                let mut ran = false;
                let idx = total + j;
                sched::log(&format!("dispatch {}", idx));
                pool.spawn(Box::new(move || {
                    if ran {
                        return;
                    }
                    ran = true;
                    let _ = &st;
                    sched::log(&format!("start {}", idx));
                    sched::log(&format!("end {}", idx));
                }));
            }
            stdx::thread::sleep(Duration::from_millis(200));
            trickle_live = live_workers();
        }
        let q2 = sched::settle(60_000_000_000);
        let idle = live_workers();
        sched::log("droppool");
        drop(pool);
        let q3 = sched::settle(60_000_000_000);
        let dropped = live_workers();
        (snapshot, after_burst, idle, dropped, q1, q2, q3, trickle_live)
    });
    let labels = map_labels(&rep);
    format!(
        "pool id={} seed={} ptimer={} preempt={} bursts={} presettle={} short={} trickle={} live_trickle={} | labels={} started={} live_burst={} live_idle={} live_dropped={} quiet={}{}{} aborted={} clock={}",
        id,
        cfg.seed,
        cfg.p_timer,
        ctl_queue::preempted(&rep),
        bursts.iter().map(|(c, g)| format!("{}:{}", c, g)).collect::<Vec<_>>().join(","),
        if presettle { 1 } else { 0 },
        short.iter().map(|b| if *b { "1" } else { "0" }).collect::<Vec<_>>().join(""),
        trickle,
        trickle_live,
        labels,
        started.iter().map(|s| s.map(|t| t.to_string()).unwrap_or_else(|| "never".into())).collect::<Vec<_>>().join(","),
        after_burst,
        idle,
        dropped,
        if q1 { 1 } else { 0 },
        if q2 { 1 } else { 0 },
        if q3 { 1 } else { 0 },
        if rep.aborted { 1 } else { 0 },
        rep.clock
    ) + &format!(" steps={}", rep.steps)
}

/// Event log -> labels of the Lean LTS `Lts.Pool`:
///   +<ns> | D<k>:n (new thread) | D<k>:q<w|-> (queued, woke) | B<w> begin | F<w> finish | L<w> look
///   | T<w> timeout wake | X dropPool | S<k>:<w> (observation: task k started on worker w)
pub fn map_labels(rep: &sched::Report) -> String {
    use std::collections::HashMap;
    let mut widx: HashMap<usize, usize> = HashMap::new();
    let mut n = 0;
    for (tid, (name, _)) in rep.threads.iter().enumerate() {
        if name.starts_with("task_pool.rs") {
            widx.insert(tid, n);
            n += 1;
        }
    }
    let mut out: Vec<String> = vec![];
    let mut last_t = 0u64;
    let mut cur_dispatch: Option<String> = None;
    let mut in_wait: HashMap<usize, bool> = HashMap::new();
    let mut dropping = false;
    let mut emit = |out: &mut Vec<String>, t: u64, l: String, last_t: &mut u64| {
        if t > *last_t {
            out.push(format!("+{}", t - *last_t));
            *last_t = t;
        }
        out.push(l);
    };
    for e in &rep.events {
        let w: Vec<&str> = e.what.split(' ').collect();
        let is_pool_site = |i: usize| w.get(i).map_or(false, |s| s.starts_with("task_pool.rs"));
        match w[0] {
            "dispatch" => cur_dispatch = Some(w[1].to_string()),
            "droppool" => dropping = true,
            "spawn" if e.tid == 0 && cur_dispatch.is_some() && w.get(2).map_or(false, |s| s.starts_with("task_pool.rs")) => {
                let k = cur_dispatch.take().unwrap();
                emit(&mut out, e.t, format!("D{}:n", k), &mut last_t);
            }
            "notify_one" if is_pool_site(1) && e.tid == 0 => {
                if let Some(k) = cur_dispatch.take() {
                    let woke = match w.get(2) {
                        Some(x) if x.starts_with('t') => {
                            let tid: usize = x[1..].parse().unwrap_or(usize::MAX);
                            in_wait.insert(tid, false);
                            widx.get(&tid).map(|c| c.to_string()).unwrap_or_else(|| "?".into())
                        }
                        _ => "-".to_string(),
                    };
                    emit(&mut out, e.t, format!("D{}:q{}", k, woke), &mut last_t);
                }
            }
            "notify_all" if is_pool_site(1) && dropping => {
                for v in in_wait.values_mut() {
                    *v = false;
                }
                emit(&mut out, e.t, "X".to_string(), &mut last_t);
            }
            "begin" => {
                if let Some(&i) = widx.get(&e.tid) {
                    emit(&mut out, e.t, format!("B{}", i), &mut last_t);
                }
            }
            "start" => {
                if let Some(&i) = widx.get(&e.tid) {
                    emit(&mut out, e.t, format!("S{}:{}", w[1], i), &mut last_t);
                }
            }
            "end" => {
                if let Some(&i) = widx.get(&e.tid) {
                    emit(&mut out, e.t, format!("F{}", i), &mut last_t);
                }
            }
            "lock" if is_pool_site(1) => {
                if let Some(&i) = widx.get(&e.tid) {
                    in_wait.insert(e.tid, false);
                    emit(&mut out, e.t, format!("L{}", i), &mut last_t);
                }
            }
            "wait" if is_pool_site(1) => {
                in_wait.insert(e.tid, true);
            }
            "timer" => {
                if let Some(&i) = widx.get(&e.tid) {
                    if in_wait.get(&e.tid).cloned().unwrap_or(false) {
                        in_wait.insert(e.tid, false);
                        emit(&mut out, e.t, format!("T{}", i), &mut last_t);
                    }
                }
            }
            "spurious" => {
                if let Some(&i) = widx.get(&e.tid) {
                    if in_wait.get(&e.tid).cloned().unwrap_or(false) {
                        in_wait.insert(e.tid, false);
                        emit(&mut out, e.t, format!("W{}", i), &mut last_t);
                    }
                }
            }
            _ => {}
        }
    }
    out.join(",")
}
