//! Generators of `conn` cases: abstract requests → wire renderings, malformed classes,
//! application scripts, and the `i_reqs` intent consumed by the driver's oracles.
use crate::connrun::*;
use crate::{hex, Rng};

#[derive(Clone, Debug, PartialEq)]
pub enum Framing {
    None,
    Len,          // Content-Length: body.len()
    Chunked,      // Transfer-Encoding: chunked
    Both,         // Content-Length (arbitrary) + Transfer-Encoding: chunked — chunked wins
}

#[derive(Clone, Debug)]
pub struct AReq {
    pub class: &'static str, // ok | e400 | e417 | e505 | silent | smug
    pub method: String,
    pub url: String,
    pub ver: (u8, u8),
    pub hdrs: Vec<(String, String)>, // exactly as delivered (values without surrounding OWS)
    pub body: Vec<u8>,               // the designated body
    pub framing: Framing,
    pub declared: Option<usize>,     // what body_length() must report
    pub last: bool,                  // the connection must end after this request
    pub expect100: bool,
    pub upgrade: bool,
    /// raw bytes when the element is not rendered from the fields above (malformed classes)
    pub raw: Option<Vec<u8>>,
}

impl AReq {
    pub fn get(url: &str) -> AReq {
        AReq {
            class: "ok",
            method: "GET".into(),
            url: url.into(),
            ver: (1, 1),
            hdrs: vec![("Host".into(), "example.org".into())],
            body: vec![],
            framing: Framing::None,
            declared: None,
            last: false,
            expect100: false,
            upgrade: false,
            raw: None,
        }
    }
    pub fn bad(class: &'static str, raw: Vec<u8>) -> AReq {
        let mut r = AReq::get("/");
        r.class = class;
        r.raw = Some(raw);
        r
    }
}

pub fn ows(rng: &mut Rng) -> String {
    match rng.below(6) {
        0 => "".into(),
        1 | 2 | 3 => " ".into(),
        4 => "\t".into(),
        _ => " \t  ".into(),
    }
}

/// chunked rendering of `body` with random chunk sizes, hex case, leading zeros, extensions
pub fn render_chunked(rng: &mut Rng, body: &[u8]) -> Vec<u8> {
    let mut out = vec![];
    let mut i = 0;
    let style = rng.below(5);
    while i < body.len() {
        let max = match style {
            0 => body.len(),
            1 => 1,
            2 => 1024,
            3 => 4096,
            _ => *rng.pick(&[1usize, 2, 15, 16, 17, 255, 256, 1000, 5000]),
        };
        let n = std::cmp::min(body.len() - i, rng.range(1, std::cmp::max(1, max)));
        let mut sz = match rng.below(4) {
            0 => format!("{:X}", n),
            1 => format!("{:04x}", n),
            2 => format!("000{:x}", n),
            _ => format!("{:x}", n),
        };
        match rng.below(6) {
            0 => sz.push_str(";ext=1"),
            1 => sz.push_str(";a;b=\"c\""),
            _ => {}
        }
        out.extend_from_slice(sz.as_bytes());
        out.extend_from_slice(b"\r\n");
        out.extend_from_slice(&body[i..i + n]);
        out.extend_from_slice(b"\r\n");
        i += n;
    }
    out.extend_from_slice(if rng.chance(1, 4) { b"000\r\n\r\n" } else { b"0\r\n\r\n" });
    out
}

/// wire rendering of an abstract request (OWS around values is the only freedom)
pub fn render(rng: &mut Rng, r: &AReq) -> Vec<u8> {
    if let Some(raw) = &r.raw {
        return raw.clone();
    }
    let mut out = vec![];
    out.extend_from_slice(format!("{} {} HTTP/{}.{}\r\n", r.method, r.url, r.ver.0, r.ver.1).as_bytes());
    for (n, v) in &r.hdrs {
        out.extend_from_slice(n.as_bytes());
        out.push(b':');
        out.extend_from_slice(ows(rng).as_bytes());
        out.extend_from_slice(v.as_bytes());
        out.extend_from_slice(ows(rng).as_bytes());
        out.extend_from_slice(b"\r\n");
    }
    out.extend_from_slice(b"\r\n");
    match r.framing {
        Framing::None => {
            if r.upgrade {
                out.extend_from_slice(&r.body);
            }
        }
        Framing::Len => out.extend_from_slice(&r.body),
        Framing::Chunked | Framing::Both => out.extend_from_slice(&render_chunked(rng, &r.body)),
    }
    out
}

pub fn body_of(rng: &mut Rng, n: usize) -> Vec<u8> {
    // bodies that look like HTTP: CRLFs, digits, "GET / HTTP/1.1" fragments — but never "Date: "
    let frag: &[&[u8]] = &[b"GET /x HTTP/1.1\r\n", b"\r\n\r\n", b"0\r\n\r\n", b"5\r\nhello\r\n", b"Content-Length: 3\r\n", b"abcdefghijklmnopqrstuvwxyz", b"\x00\x01\xff\xfe"];
    let mut v = Vec::with_capacity(n);
    while v.len() < n {
        let f = frag[rng.below(frag.len())];
        v.extend_from_slice(f);
    }
    v.truncate(n);
    v
}

pub fn set_body(rng: &mut Rng, r: &mut AReq, framing: Framing, n: usize) {
    let name_cl = crate::recase(rng, "Content-Length");
    let name_te = crate::recase(rng, "Transfer-Encoding");
    r.body = body_of(rng, n);
    r.framing = framing.clone();
    match framing {
        Framing::None => {}
        Framing::Len => {
            let v = if rng.chance(1, 8) { format!("00{}", n) } else { n.to_string() };
            r.hdrs.push((name_cl, v));
            r.declared = Some(n);
        }
        Framing::Chunked => {
            // coding names are case-insensitive
            r.hdrs.push((name_te, (*rng.pick(&["chunked", "chunked", "chunked", "Chunked", "CHUNKED"])).into()));
            r.declared = None;
        }
        Framing::Both => {
            let fake = *rng.pick(&[0usize, 3, 99999]);
            if rng.chance(1, 2) {
                r.hdrs.push((name_cl, fake.to_string()));
                r.hdrs.push((name_te, "chunked".into()));
            } else {
                r.hdrs.push((name_te, "chunked".into()));
                r.hdrs.push((name_cl, fake.to_string()));
            }
            r.declared = None;
        }
    }
}

pub fn intent_of_pub(reqs: &[AReq]) -> String {
    intent_of(reqs)
}

fn intent_of(reqs: &[AReq]) -> String {
    let items: Vec<String> = reqs
        .iter()
        .map(|r| {
            format!(
                "{},{},{},{}.{},{},{},{},{},{},{}",
                r.class,
                hex(r.method.as_bytes()),
                hex(r.url.as_bytes()),
                r.ver.0,
                r.ver.1,
                r.hdrs.iter().map(|(n, v)| format!("{}~{}", hex(n.as_bytes()), hex(v.as_bytes()))).collect::<Vec<_>>().join("+"),
                hex(&r.body),
                r.declared.map(|x| x.to_string()).unwrap_or_else(|| "none".into()),
                if r.last { 1 } else { 0 },
                if r.expect100 { 1 } else { 0 },
                if r.upgrade { 1 } else { 0 }
            )
        })
        .collect();
    format!("i_reqs={}", items.join("|"))
}

pub fn ok_resp(id: usize, rng: &mut Rng) -> RespSpec {
    let big = rng.chance(1, 6);
    let mut body = format!("response-to-{}", id).into_bytes();
    if big {
        let n = *rng.pick(&[1100usize, 3000, 9000]);
        while body.len() < n {
            body.push(b'a' + (body.len() % 26) as u8);
        }
    }
    let declared = if rng.chance(1, 4) { None } else { Some(body.len()) };
    RespSpec {
        status: *rng.pick(&[200u16, 200, 200, 201, 404, 503]),
        hdrs: if rng.chance(1, 3) { vec![(b"X-Id".to_vec(), id.to_string().into_bytes())] } else { vec![] },
        declared,
        thr: if rng.chance(1, 5) { Some(*rng.pick(&[0usize, 5, 100000])) } else { None },
        pieces: if body.len() > 100 && rng.chance(1, 2) { body.chunks(700).map(|c| c.to_vec()).collect() } else { vec![body] },
    }
}

pub fn raw_message(id: usize, rng: &mut Rng) -> Vec<WOp> {
    let body = format!("raw-{}", id);
    let msg = format!("HTTP/1.1 200 OK\r\nContent-Length: {}\r\nX-Raw: {}\r\n\r\n{}", body.len(), id, body).into_bytes();
    let mut ops = vec![];
    if rng.chance(1, 5) {
        ops.push(WOp::F);
    }
    match rng.below(3) {
        0 => ops.push(WOp::W(msg)),
        1 => {
            let k = rng.range(1, msg.len() - 1);
            ops.push(WOp::W(msg[..k].to_vec()));
            if rng.chance(1, 2) {
                ops.push(WOp::F);
            }
            ops.push(WOp::W(msg[k..].to_vec()));
        }
        _ => {
            for c in msg.chunks(9) {
                ops.push(WOp::W(c.to_vec()));
            }
        }
    }
    ops.push(WOp::F);
    ops
}

pub fn simple_action(id: usize, rng: &mut Rng) -> Action {
    Action { as_reader: 0, read_total: 0, buf: 1, delay_ms: 0, fin: Finish::Respond(ok_resp(id, rng)), zero_read: false }
}

/// an action with a random way of finishing and a read plan over a body of `blen` bytes
pub fn rich_action(id: usize, rng: &mut Rng, blen: usize, may_overread: bool) -> Action {
    let fin = match rng.below(8) {
        0 => Finish::Drop,
        1 => Finish::Panic,
        2 if rng.chance(1, 4) => Finish::Writer(vec![]), // raw writer taken and dropped untouched
        2 => Finish::Writer(raw_message(id, rng)),
        _ => Finish::Respond(ok_resp(id, rng)),
    };
    let (ar, rd) = match rng.below(6) {
        0 => (0, 0),
        1 => (1, 0),
        2 => (1, if blen > 0 { rng.range(1, blen) } else { 0 }),
        3 => (2, blen),
        4 => (1, blen / 2),
        _ => (1, if may_overread { blen + 10 } else { blen }),
    };
    Action { as_reader: ar, read_total: rd, buf: *rng.pick(&[1usize, 3, 7, 512, 1024, 4096, 100000]), delay_ms: 0, fin, zero_read: false }
}

fn assemble(rng: &mut Rng, reqs: &[AReq], script: Vec<Action>, mode: Mode, extra_intent: &str) -> ConnCase {
    let mut bytes = vec![];
    // per element: offset where it ends, offset where its head ends, 1 if its body is buffered at parse time
    let mut ends: Vec<String> = vec![];
    for r in reqs {
        let start = bytes.len();
        let piece = render(rng, r);
        let head_len = piece.windows(4).position(|w| w == b"\r\n\r\n").map(|p| p + 4).unwrap_or(piece.len());
        bytes.extend_from_slice(&piece);
        let small = r.class == "ok" && r.framing == Framing::Len && r.body.len() <= 1024 && !r.expect100 && !r.upgrade;
        ends.push(format!("{}:{}:{}", bytes.len(), start + head_len, if small { 1 } else { 0 }));
    }
    let extra_intent = format!("{} i_ends={}", extra_intent, ends.join(","));
    let extra_intent = extra_intent.as_str();
    ConnCase { bytes, mode, hold: None, segs: vec![], script, unix: false, intent: format!("{} {}", intent_of(reqs), extra_intent).trim().to_string() }
}

pub fn assemble_pub(rng: &mut Rng, reqs: &[AReq], script: Vec<Action>) -> ConnCase {
    assemble(rng, reqs, script, Mode::HalfClose, "")
}

const METHODS: &[&str] = &["GET", "HEAD", "POST", "PUT", "DELETE", "CONNECT", "OPTIONS", "TRACE", "PATCH", "get", "Get", "head", "Head", "hEAD", "HEADS", "PROPFIND", "M-SEARCH", "X", "a!#$%&'*+-.^_`|~z"];

fn rand_token(rng: &mut Rng, n: usize) -> String {
    (0..n).map(|_| *rng.pick(b"abcdefghijklmnopqrstuvwxyzABCDEFGHIJKLMNOPQRSTUVWXYZ0123456789-_.!~") as char).collect()
}

fn rand_value(rng: &mut Rng, n: usize) -> String {
    // field-content: VCHAR / SP / HT, no leading/trailing OWS (the expected delivered form)
    let s: String = (0..n).map(|_| *rng.pick(b"abcXYZ012 \t:;,=/\"()<>@[]{}?\\!#$%&'*+-.^_`|~") as char).collect();
    s.trim_matches(|c| c == ' ' || c == '\t').to_string()
}

/// C02: rich heads
pub fn gen_c02(rng: &mut Rng) -> ConnCase {
    // now and then a longer conversation (what has gone before on a connection must not matter)
    let n = if rng.chance(1, 25) { 6 } else { rng.range(1, 3) };
    let mut reqs = vec![];
    let mut script = vec![];
    for i in 0..n {
        let mut r = AReq::get("/");
        r.method = METHODS[rng.below(METHODS.len())].to_string();
        r.url = match rng.below(5) {
            0 => "*".into(),
            1 => format!("/{}?q={}#frag", rand_token(rng, 8), rand_token(rng, 5)),
            2 => {
                // lines longer than the 1 KiB read buffer, than 8 KiB, than 16 KiB
                let n = *rng.pick(&[2000usize, 2000, 8700, 20000]);
                format!("http://{}/{}", rand_token(rng, 6), rand_token(rng, n))
            }
            3 if rng.chance(1, 2) => "/wiki/HTTP/2?cmp=HTTP/1.1".into(),
            3 => "/%20%00/..//a;b=c".into(),
            _ => format!("/{}", i),
        };
        r.ver = if rng.chance(1, 3) { (1, 0) } else { (1, 1) };
        r.hdrs.clear();
        let nh = *rng.pick(&[0usize, 1, 2, 5, 12, 64]);
        for _ in 0..nh {
            let name = match rng.below(6) {
                0 => "Host".to_string(),
                1 => crate::recase(rng, "Accept"),
                2 => "X-Dup".to_string(),
                3 => rand_token(rng, rng.clone().range(1, 20)),
                4 if rng.chance(1, 3) && r.ver == (1, 1) => crate::recase(rng, "Connection"),
                4 => crate::recase(rng, "Cookie"),
                _ => format!("X-{}", rand_token(rng, 3)),
            };
            let vl = *rng.pick(&[0usize, 0, 1, 5, 20, 60, 1500, 1500, 8700]);
            if name.eq_ignore_ascii_case("connection") {
                // delivered as sent, letter case included (values that keep the connection open)
                r.hdrs.push((name, (*rng.pick(&["Keep-Alive", "TE, X-Hop-Token", "KEEP-ALIVE, Foo", "Keep-Alive"])).to_string()));
            } else {
                r.hdrs.push((name, rand_value(rng, vl)));
            }
        }
        if rng.chance(1, 30) || n == 6 {
            // a head well above 64 KiB
            for k in 0..40 {
                r.hdrs.push((format!("X-Big-{}", k), rand_value(rng, 1800)));
            }
        }
        // persistence: keep the connection open so that all requests are served
        if r.ver == (1, 0) {
            r.hdrs.push(("Connection".into(), "keep-alive".into()));
        }
        // framing headers are ordinary members of the header list too: Content-Length alone,
        // Transfer-Encoding alone, and both together (the body is not looked at by the handler)
        if rng.chance(1, 4) {
            let fr = match rng.below(4) {
                0 => Framing::Len,
                1 => Framing::Chunked,
                _ => Framing::Both,
            };
            let n = *rng.pick(&[0usize, 3, 700, 3000]);
            set_body(rng, &mut r, fr, n);
            if rng.chance(1, 2) {
                // not only at the end of the list
                let k = r.hdrs.len();
                let at = rng.below(k);
                let h = r.hdrs.remove(k - 1);
                r.hdrs.insert(at, h);
            }
        }
        r.last = false;
        // what a request says about itself stays the same while it is handled: also for an
        // expectation that the library acts upon when the body is asked for
        let expecting = r.framing == Framing::None && rng.chance(1, 10);
        if expecting {
            let n = *rng.pick(&[0usize, 4, 1200]);
            r.hdrs.push((crate::recase(rng, "Expect"), "100-continue".into()));
            r.expect100 = true;
            set_body(rng, &mut r, Framing::Len, n);
            reqs.push(r);
            let mut a = simple_action(i, rng);
            a.as_reader = 1;
            a.read_total = n;
            a.buf = 512;
            script.push(a);
            continue;
        }
        reqs.push(r);
        script.push(simple_action(i, rng));
    }
    let mut c = assemble(rng, &reqs, script, Mode::HalfClose, "");
    c.unix = rng.chance(1, 10);
    c
}

/// C02: lines of every length.  Connection `variant` carries four requests whose request lines and
/// one of whose header lines are exactly L bytes long (CR LF not counted) for four consecutive L;
/// variants from 80 on take the lengths around the powers of two up to 16 KiB.
pub fn gen_c02_sweep(rng: &mut Rng, variant: usize) -> ConnCase {
    const EDGES: &[usize] = &[510, 1022, 1026, 2046, 4094, 8190, 16382];
    let base = if variant < 80 { 2 + 4 * variant } else { EDGES[(variant - 80) % EDGES.len()] };
    let mut reqs = vec![];
    let mut script = vec![];
    for (i, l) in (base..base + 4).enumerate() {
        let mut r = AReq::get("/");
        // request line: "GET " + url + " HTTP/1.1" = l bytes (at least 14)
        let ul = std::cmp::max(l, 14) - 13;
        r.url = format!("/{}", rand_token(rng, ul - 1));
        // header line: name ":" value = l bytes
        let (name, value) = if l >= 12 { ("X-Sweep".to_string(), rand_token(rng, l - 9)) } else { ("A".to_string(), rand_token(rng, l - 2)) };
        let sep = if l >= 12 { ": " } else { ":" };
        r.hdrs = vec![("Host".into(), "a".into()), (name.clone(), value.clone()), ("X-After".into(), format!("z{}", i))];
        r.last = false;
        r.raw = Some(format!("GET {} HTTP/1.1\r\nHost: a\r\n{}{}{}\r\nX-After: z{}\r\n\r\n", r.url, name, sep, value, i).into_bytes());
        reqs.push(r);
        script.push(simple_action(i, rng));
    }
    assemble(rng, &reqs, script, Mode::HalfClose, "i_fam=sweep")
}

/// C02 / C11 / C12: one persistent connection that carries a long conversation.  What has gone
/// before on a connection must not matter: the 420th small request, the 8th request with a 1.5 KiB
/// cookie and the 300th request with a head above the read buffer are delivered and answered like
/// the first, and the server leaves the connection open until the client closes it.
pub fn gen_long(rng: &mut Rng, variant: usize) -> ConnCase {
    let (n, pad): (usize, usize) = match variant % 3 {
        0 => (420, 140),
        1 => (8, 1500),
        _ => (300, 1100),
    };
    let mut reqs = vec![];
    let mut script = vec![];
    for i in 0..n {
        let mut r = AReq::get(&format!("/long/{}", i));
        r.hdrs.push(("Accept".into(), "*/*".into()));
        if pad > 0 {
            r.hdrs.push(("Cookie".into(), rand_token(rng, pad)));
        }
        if variant % 3 == 1 && rng.chance(1, 2) {
            r.ver = (1, 0);
            r.hdrs.push(("Connection".into(), "keep-alive".into()));
        }
        r.last = false;
        reqs.push(r);
        let body = format!("r{}", i).into_bytes();
        script.push(Action {
            as_reader: 0,
            read_total: 0,
            buf: 1,
            delay_ms: 0,
            fin: Finish::Respond(RespSpec { status: 200, hdrs: vec![], declared: Some(body.len()), thr: None, pieces: vec![body] }),
            zero_read: false,
        });
    }
    assemble(rng, &reqs, script, Mode::HalfClose, "i_fam=long")
}

/// C09 / C11: a Content-Length body far above a MiB of which the application reads nothing, a
/// little or half before it answers or drops the request; the pipelined successor is served.
pub fn gen_big_unread(rng: &mut Rng, variant: usize) -> ConnCase {
    let total = 1_400_000usize;
    let mut r = AReq::get("/big");
    r.method = "POST".into();
    set_body(rng, &mut r, Framing::Len, total);
    let (ar, rd) = match variant % 3 {
        0 => (0, 0),
        1 => (1, 1000),
        _ => (1, total / 2),
    };
    let fin = if variant % 2 == 0 { Finish::Respond(ok_resp(0, rng)) } else { Finish::Drop };
    let a = Action { as_reader: ar, read_total: rd, buf: *rng.pick(&[512usize, 4096, 100000]), delay_ms: 0, fin, zero_read: false };
    let reqs = vec![r, AReq::get("/second")];
    let script = vec![a, simple_action(1, rng)];
    assemble(rng, &reqs, script, Mode::HalfClose, "i_fam=bigunread i_successors=2")
}

thread_local! {
    /// set by the caller to make the next `gen_body` use a body far above every buffer (400 kB)
    pub static HUGE: std::cell::Cell<bool> = std::cell::Cell::new(false);
    /// ... or one above a MiB (1.4 MB)
    pub static HUGER: std::cell::Cell<bool> = std::cell::Cell::new(false);
}

pub const BODY_LENS: &[usize] = &[0, 1, 2, 5, 100, 1023, 1024, 1025, 2047, 2048, 2049, 8191, 8192, 8193, 20000];

/// C03 / C09: bodies, read plans, following requests
pub fn gen_body(rng: &mut Rng, consume_focus: bool, big: bool) -> ConnCase {
    let mut reqs = vec![];
    let mut script = vec![];
    let n_before = rng.below(2);
    for i in 0..n_before {
        reqs.push(AReq::get(&format!("/before{}", i)));
        script.push(simple_action(i, rng));
    }
    let mut r = AReq::get("/body");
    r.method = (*rng.pick(&["POST", "PUT", "PATCH", "GET", "HEAD"])).to_string();
    if rng.chance(1, 12) {
        // the framing header far down a long header list
        for k in 0..*rng.pick(&[99usize, 100, 130]) {
            r.hdrs.push((format!("X-Pad-{}", k), "p".into()));
        }
    }
    let framing = match rng.below(7) {
        0 | 1 | 2 => Framing::Len,
        3 | 4 => Framing::Chunked,
        5 => Framing::Both,
        _ => Framing::None,
    };
    let n = if big && rng.chance(1, 4) { 70000 } else { *rng.pick(BODY_LENS) };
    let n = if HUGE.with(|h| h.replace(false)) { 400_000 } else { n };
    let n = if HUGER.with(|h| h.replace(false)) { 1_400_000 } else { n };
    let n = if framing == Framing::None { 0 } else { n };
    set_body(rng, &mut r, framing.clone(), n);
    // message framing does not depend on the protocol version: kept-alive HTTP/1.0 requests too
    if rng.chance(1, 5) {
        r.ver = (1, 0);
        r.hdrs.push((crate::recase(rng, "Connection"), "keep-alive".into()));
    }
    // a client that announces Expect: 100-continue but does not wait for the interim response
    if framing != Framing::None && rng.chance(1, 8) {
        r.hdrs.push((crate::recase(rng, "Expect"), "100-continue".into()));
        r.expect100 = true;
    }
    reqs.push(r);
    let id = n_before;
    let mut a = rich_action(id, rng, n, true);
    if consume_focus {
        // every consumption prefix class, EOF observed or not
        let (ar, rd) = match rng.below(7) {
            0 => (0, 0),
            1 => (1, 0),
            2 => (1, 1.min(n)),
            3 => (1, n.saturating_sub(1)),
            4 => (1, n),      // all payload bytes, EOF not observed
            5 => (1, n + 1),  // EOF observed
            _ => (1, if n > 0 { rng.range(0, n) } else { 0 }),
        };
        a.as_reader = ar;
        a.read_total = rd;
    }
    if a.as_reader > 0 && rng.chance(1, 8) {
        // a read with an empty buffer first: the EOF fuse takes it for the end of a streamed body
        a.zero_read = true;
    }
    script.push(a);
    let n_after = rng.range(1, 2);
    for i in 0..n_after {
        let mut nx = AReq::get(&format!("/after{}", i));
        if rng.chance(1, 3) {
            let m = *rng.pick(&[3usize, 1024, 1500]);
            set_body(rng, &mut nx, Framing::Len, m);
            nx.method = "POST".into();
        }
        reqs.push(nx);
        script.push(rich_action(id + 1 + i, rng, 0, false));
    }
    assemble(rng, &reqs, script, Mode::HalfClose, "")
}

/// upgrade requests: the body is everything that follows
pub fn gen_upgrade(rng: &mut Rng) -> ConnCase {
    let mut r = AReq::get("/ws");
    r.hdrs.push((crate::recase(rng, "Connection"), (*rng.pick(&["upgrade", "Upgrade", "keep-alive, Upgrade", "Upgrade, HTTP2-Settings"])).to_string()));
    // whatever protocol is offered, and whether or not the application takes the offer up, the
    // request is the connection's last one and its body is the rest of the stream
    r.hdrs.push(("Upgrade".into(), (*rng.pick(&["websocket", "h2c", "h2c", "h2c, websocket", "TLS/1.0, HTTP/1.1"])).into()));
    if rng.chance(1, 3) {
        r.hdrs.push(("HTTP2-Settings".into(), "AAMAAABkAARAAAAAAAIAAAAA".into()));
    }
    if rng.chance(1, 2) {
        // ignored: upgrade wins, also over a Content-Length of 0
        let n = *rng.pick(&[3usize, 0, 0]);
        r.hdrs.push(("Content-Length".into(), n.to_string()));
        r.declared = Some(n);
    }
    r.upgrade = true;
    r.last = true;
    let n = *rng.pick(&[0usize, 1, 10, 1500, 5000]);
    r.body = body_of(rng, n);
    if rng.chance(1, 3) {
        // bytes that would make a request if anybody parsed them
        r.body = b"GET /smuggled HTTP/1.1\r\nHost: x\r\n\r\n".to_vec();
    }
    let n = r.body.len();
    let fin = if rng.chance(1, 2) {
        Finish::Upgrade(b"websocket".to_vec(), RespSpec { status: 101, hdrs: vec![], declared: Some(0), thr: None, pieces: vec![] }, raw_message(0, rng))
    } else {
        Finish::Respond(ok_resp(0, rng))
    };
    let a = Action { as_reader: 1, read_total: *rng.pick(&[0usize, n / 2, n, n + 5]), buf: *rng.pick(&[1usize, 64, 4096]), delay_ms: 0, fin, zero_read: false };
    assemble(rng, &[r], vec![a], Mode::HalfClose, "")
}

pub const BAD_400: &[&[u8]] = &[
    b"GET /\r\n\r\n",
    b"GET\r\n\r\n",
    b"\r\n\r\n",
    b"GET / HTTP/1.2\r\nHost: x\r\n\r\n",
    b"GET / http/1.1\r\nHost: x\r\n\r\n",
    b"GET / HTTP/1.1x\r\n\r\n",
    b"GET / HTTP/1\r\n\r\n",
    b"GET / FOO\r\n\r\n",
    b"GET  / HTTP/1.1\r\n\r\n",
    b"GET / HTTP/1.1\r\nNoColonHere\r\n\r\n",
    b"GET / HTTP/1.0\r\nHost x\r\n\r\n",
    b"POST / HTTP/1.1\r\nHost: x\r\n \r\n\r\n",
    // a header line of nothing but white space, with fields behind it
    b"GET /ws HTTP/1.1\r\nHost: x\r\n\t\r\nX-After: y\r\n\r\n",
    b"GET /ws HTTP/1.1\r\n  \r\nHost: x\r\n\r\n",
    // version tokens that are not in the table although they "mean" a known version
    b"GET / HTTP/1.01\r\nHost: x\r\n\r\n",
    b"GET / HTTP/01.1\r\nHost: x\r\n\r\n",
    b"GET / HTTP/+1.1\r\nHost: x\r\n\r\n",
    b"GET / HTTP/1.+0\r\nHost: x\r\n\r\n",
    b"GET / HTTP/02.0\r\nHost: x\r\n\r\n",
    b"GET / HTTP/2.00\r\nHost: x\r\n\r\n",
    b"GET / HTTP/1.1.\r\nHost: x\r\n\r\n",
    // the malformed line is answered when it arrives: the rest of the head need not come
    b"GET /index.html\r\n",
    b"GET / HTTP/1.1\r\nHost localhost\r\n",
    b"GET / HTTP/1.1\r\nHost: x\r\nNoColon\r\nX-More: 1\r\n",
];
pub const BAD_417: &[&[u8]] = &[
    b"POST / HTTP/1.1\r\nExpect: 200-ok\r\nContent-Length: 3\r\n\r\nabc",
    b"GET / HTTP/1.1\r\nexpect: 100-continuex\r\n\r\n",
    b"GET / HTTP/1.0\r\nEXPECT: bogus\r\n\r\n",
    b"PUT /x HTTP/1.1\r\nExpect:\r\n\r\n",
    b"PUT /x HTTP/1.1\r\nExpect: , ,\r\nContent-Length: 2\r\n\r\nab",
    // no body, and the connection would end after this request anyway
    b"GET /e HTTP/1.0\r\nExpect: bogus\r\n\r\n",
    b"GET /e HTTP/1.1\r\nConnection: upgrade\r\nExpect: 200-ok\r\n\r\n",
    b"GET /e HTTP/1.1\r\nExpect: 200-ok\r\n\r\n",
    // lists: an expectation next to the supported one is still an unsupported value
    b"POST /l HTTP/1.1\r\nExpect: 100-continue, x-bogus\r\nContent-Length: 3\r\n\r\nabc",
    b"POST /l HTTP/1.1\r\nExpect: x-bogus, 100-continue\r\nContent-Length: 3\r\n\r\nabc",
    b"GET /l HTTP/1.1\r\nExpect: 100-continue,\r\n\r\n",
    b"GET /l HTTP/1.1\r\nExpect: 100-continue;q=1\r\n\r\n",
];
pub const BAD_505: &[&[u8]] = &[
    b"GET /v2 HTTP/2.0\r\nHost: x\r\n\r\n",
    b"GET /v3 HTTP/3.0\r\n\r\n",
    b"POST /v2 HTTP/2.0\r\nContent-Length: 4\r\n\r\nbody",
    b"POST /v2 HTTP/2.0\r\nContent-Length: 20\r\n\r\n01234567890123456789",
    // what a refused request says about the connection is not acted upon: the connection stays
    b"GET /v2 HTTP/2.0\r\nHost: x\r\nConnection: close\r\n\r\n",
    b"GET /v2 HTTP/2.0\r\nHost: x\r\nConnection: Upgrade, HTTP2-Settings\r\nUpgrade: h2c\r\nHTTP2-Settings: AAMAAABkAAQAAP__\r\n\r\n",
    // ... nor what it says about an upgrade: its body is skipped like any other refused body
    // (found by the proof of C10.pipeline_with_refused_requests: finding F12, fixed in 1a35ef2)
    b"POST /v2 HTTP/2.0\r\nConnection: upgrade\r\nContent-Length: 26\r\n\r\nGET /smuggled HTTP/1.1\r\n\r\n",
    b"POST /v3 HTTP/3.0\r\nConnection: keep-alive, Upgrade\r\nUpgrade: h2c\r\nTransfer-Encoding: chunked\r\n\r\n1a\r\nGET /smuggled HTTP/1.1\r\n\r\n\r\n0\r\n\r\n",
    b"POST /v2 HTTP/2.0\r\nConnection: upgrade\r\nContent-Length: 4\r\n\r\nbody",
];
pub const BAD_SILENT: &[&[u8]] = &[b"GET /\xc3\xa9 HTTP/1.1\r\nHost: x\r\n\r\n", b"GET / HTTP/1.1\r\nX-Name: caf\xe9\r\n\r\n", b"G\xffT / HTTP/1.1\r\n\r\n"];

/// C16 classes: each must be answered 400 and close
pub fn smuggle_variants() -> Vec<Vec<u8>> {
    let mut v: Vec<Vec<u8>> = vec![];
    let hdr_lines: &[&str] = &[
        " Transfer-Encoding: chunked",
        "\tTransfer-Encoding: chunked",
        " Content-Length: 5",
        "Content-Length : 5",
        "Content-Length\t: 5",
        "Content Length: 5",
        "Transfer-Encoding : chunked",
        "Transfer Encoding: chunked",
        "Transfer-\tEncoding: chunked",
        " X-Other: v",
        "X Other: v",
        "X-Other : v",
    ];
    for h in hdr_lines {
        v.push(format!("POST /s HTTP/1.1\r\nHost: x\r\n{}\r\n\r\n", h).into_bytes());
    }
    // a line of nothing but whitespace (an empty obsolete fold) inside the head
    for ws in [" ", "\t", "  \t "] {
        v.push(format!("POST /s HTTP/1.1\r\nHost: x\r\n{}\r\nContent-Length: 0\r\n\r\n", ws).into_bytes());
        v.push(format!("POST /s HTTP/1.1\r\n{}\r\nContent-Length: 38\r\n\r\n", ws).into_bytes());
    }
    // the offending line directly after the request line (no field in front of it)
    for h in [" Content-Length: 38", "\tTransfer-Encoding: chunked", " X-Other: v"] {
        v.push(format!("POST /s HTTP/1.1\r\n{}\r\nHost: x\r\n\r\n", h).into_bytes());
    }
    // the same syntax in a request of a version the server does not speak: still 400 and close
    for h in ["Content-Length: 5x", " Content-Length: 38", "Content-Length : 5"] {
        v.push(format!("POST /s HTTP/2.0\r\nHost: x\r\n{}\r\n\r\n", h).into_bytes());
        v.push(format!("POST /s HTTP/3.0\r\n{}\r\n\r\n", h).into_bytes());
    }
    for val in ["", "+5", "-5", "5x", "abc", "5, 5", "5 5", "18446744073709551616", "99999999999999999999999", "0x10", "5.0", "+0"] {
        v.push(format!("POST /s HTTP/1.1\r\nHost: x\r\nContent-Length: {}\r\n\r\n", val).into_bytes());
        // also when a Transfer-Encoding header is present
        v.push(format!("POST /s HTTP/1.1\r\nContent-Length: {}\r\nTransfer-Encoding: chunked\r\n\r\n0\r\n\r\n", val).into_bytes());
        // and as a second Content-Length header
        v.push(format!("POST /s HTTP/1.1\r\nContent-Length: 0\r\ncontent-length: {}\r\n\r\n", val).into_bytes());
    }
    v
}

/// a pipeline of k good requests, one bad element, and a tail
pub fn gen_bad(rng: &mut Rng, class: &'static str, raw: &[u8], pos: usize, late: bool) -> ConnCase {
    let mut reqs = vec![];
    let mut script = vec![];
    for i in 0..pos {
        let mut r = AReq::get(&format!("/good{}", i));
        if rng.chance(1, 3) {
            let m = *rng.pick(&[4usize, 900]);
            set_body(rng, &mut r, Framing::Len, m);
            r.method = "POST".into();
        }
        reqs.push(r);
        let mut a = rich_action(i, rng, 0, false);
        if late {
            a.delay_ms = *rng.pick(&[20u64, 40]);
        }
        script.push(a);
    }
    let mut rawv = raw.to_vec();
    if (class == "e400" || class == "smug") && rng.chance(1, 2) {
        // the would-be smuggled request rides in what the offending head calls its body
        rawv.extend_from_slice(b"GET /smuggled HTTP/1.1\r\nHost: x\r\n\r\n");
    }
    reqs.push(AReq::bad(class, rawv));
    // a client that sends a request in a version the server does not speak and WAITS for the
    // answer on the open connection: the 505 must arrive without anything else being sent
    let waits = class == "e505" && rng.chance(1, 3);
    let n_tail = if waits { 0 } else if class == "e505" { rng.range(0, 3) } else { rng.range(0, 2) };
    for i in 0..n_tail {
        reqs.push(AReq::get(&format!("/tail{}", i)));
    }
    for i in 0..4 {
        script.push(simple_action(pos + i, rng));
    }
    assemble(rng, &reqs, script, if waits { Mode::Open } else { Mode::HalfClose }, "")
}

/// C10: a run of requests the server refuses while keeping the connection (HTTP/2.0, HTTP/3.0),
/// each with a head of a few KiB, between ordinary requests: the connection stays usable
/// afterwards, and a malformed head behind the run still gets its 400.
pub fn gen_refused_run(rng: &mut Rng) -> ConnCase {
    let mut reqs = vec![];
    let mut script = vec![];
    let pos = rng.below(3);
    for i in 0..pos {
        reqs.push(AReq::get(&format!("/good{}", i)));
        script.push(simple_action(i, rng));
    }
    let k = rng.range(2, 6);
    for j in 0..k {
        let pad = *rng.pick(&[20usize, 1500, 3000, 3000, 7000]);
        let raw = format!("GET /refused{} HTTP/{}.0\r\nHost: x\r\nX-Pad: {}\r\n\r\n", j, if rng.chance(1, 2) { 2 } else { 3 }, "p".repeat(pad));
        reqs.push(AReq::bad("e505", raw.into_bytes()));
    }
    if rng.chance(1, 3) {
        reqs.push(AReq::bad("e400", b"GET /after HTTP/1.1\r\nNoColonHere\r\n\r\n".to_vec()));
    } else {
        let n_tail = rng.range(1, 3);
        for i in 0..n_tail {
            reqs.push(AReq::get(&format!("/tail{}", i)));
        }
    }
    for i in 0..4 {
        script.push(simple_action(pos + i, rng));
    }
    assemble(rng, &reqs, script, Mode::HalfClose, "")
}

/// C16: an obsolete line fold whose text repeats, byte for byte, a header line that the same
/// connection carried before (in an earlier request, or earlier in the same head): refused like
/// any other.  Also the Content-Length classes under other spellings of the field name.
pub fn gen_fold_repeat(rng: &mut Rng, variant: usize) -> ConnCase {
    let line = *rng.pick(&["Transfer-Encoding: chunked", "Content-Length: 3", "X-Custom: same value"]);
    let mut reqs = vec![];
    let mut script = vec![];
    let ws = *rng.pick(&[" ", "\t", "  "]);
    match variant % 3 {
        0 => {
            // earlier request of the pipeline carries the line
            let (hn, hv) = line.split_once(": ").unwrap();
            let mut r = AReq::get("/one");
            r.method = "POST".into();
            r.hdrs = vec![("Host".into(), "x".into()), (hn.into(), hv.into())];
            let (body, wire): (Vec<u8>, Vec<u8>) = if hn == "Transfer-Encoding" {
                (b"abc".to_vec(), b"3\r\nabc\r\n0\r\n\r\n".to_vec())
            } else if hn == "Content-Length" {
                (b"abc".to_vec(), b"abc".to_vec())
            } else {
                (vec![], vec![])
            };
            r.body = body.clone();
            r.framing = if hn == "Transfer-Encoding" { Framing::Chunked } else if hn == "Content-Length" { Framing::Len } else { Framing::None };
            r.declared = if hn == "Content-Length" { Some(3) } else { None };
            let mut raw = format!("POST /one HTTP/1.1\r\nHost: x\r\n{}\r\n\r\n", line).into_bytes();
            raw.extend_from_slice(&wire);
            r.raw = Some(raw);
            reqs.push(r);
            script.push(simple_action(0, rng));
            // (in HTTP/1.0 as well: line folding is not honoured there either)
            let v = if rng.chance(1, 2) { "HTTP/1.0\r\nConnection: keep-alive" } else { "HTTP/1.1" };
            let bad = format!("POST /two {}\r\nHost: x\r\n{}{}\r\nContent-Length: 31\r\n\r\nGET /smuggled HTTP/1.1\r\nA: b\r\n\r\n", v, ws, line);
            reqs.push(AReq::bad("smug", bad.into_bytes()));
        }
        1 => {
            // the same head carries the line twice: once well-formed, once folded
            let v = if rng.chance(1, 2) { "HTTP/1.0\r\nConnection: keep-alive" } else { "HTTP/1.1" };
            let bad = format!("POST /x {}\r\nHost: x\r\n{}\r\n{}{}\r\n\r\nabcGET /next HTTP/1.1\r\n\r\n", v, line, ws, line);
            reqs.push(AReq::bad("smug", bad.into_bytes()));
        }
        _ => {
            // invalid Content-Length under another spelling of the name, alone or behind a valid one
            let name = *rng.pick(&["content-length", "CONTENT-LENGTH", "Content-length", "cOnTeNt-LeNgTh"]);
            let val = *rng.pick(&["", "+5", "-5", "5x", "abc", "5, 5", "5 5", "18446744073709551616", "0x10"]);
            let first = if rng.chance(1, 3) { "Content-Length: 5\r\n" } else { "" };
            // ... wherever it stands in the head: behind 99, 100 or 150 other fields too
            let pads: String = (0..*rng.pick(&[0usize, 0, 99, 100, 150])).map(|k| format!("X-Pad-{}: {}\r\n", k, k)).collect();
            let name = if pads.is_empty() { name } else { *rng.pick(&[name, "Content-Length"]) };
            let bad = format!("POST /first HTTP/1.1\r\nHost: x\r\n{}{}{}: {}\r\n\r\nGET /smuggled HTTP/1.1\r\nHost: x\r\n\r\n", pads, first, name, val);
            reqs.push(AReq::bad("smug", bad.into_bytes()));
        }
    }
    for i in 0..3 {
        script.push(simple_action(1 + i, rng));
    }
    assemble(rng, &reqs, script, Mode::HalfClose, "")
}

pub const CONN_VALUES: &[&str] = &["close", "Close", "CLOSE", "keep-alive", "Keep-Alive", "upgrade", "foo", "keep-alive, foo", "foo, close", "close, keep-alive", "TE", "", "enclosed", "keepalive"];

/// C12: persistence
pub fn gen_c12(rng: &mut Rng) -> ConnCase {
    let n = rng.range(1, 4);
    let mut reqs = vec![];
    let mut script = vec![];
    let closing_at = rng.below(n + 1); // n = nobody closes
    for i in 0..n {
        let mut r = AReq::get(&format!("/p{}", i));
        r.ver = if rng.chance(1, 2) { (1, 0) } else { (1, 1) };
        // a request need not carry any header field at all
        if rng.chance(1, 6) {
            r.hdrs.clear();
        }
        // persistence is not a matter of the method (CONNECT, OPTIONS, extension methods, ...)
        if rng.chance(1, 3) {
            r.method = METHODS[rng.below(METHODS.len())].to_string();
        }
        let mut closes = false;
        if i == closing_at {
            // choose a header that ends the connection for this version
            if r.ver == (1, 1) {
                // single tokens and token lists; `close` / `upgrade` win over a `keep-alive` in the same list
                let v = *rng.pick(&["close", "Close", "CLOSE", "foo, close", "upgrade", "enclosed", "keep-alive, close", "Close, Keep-Alive",
                                    "keep-alive, Upgrade", "Upgrade, keep-alive", "TE, close, keep-alive"]);
                r.hdrs.push((crate::recase(rng, "Connection"), v.into()));
                if v.to_ascii_lowercase().contains("upgrade") {
                    r.upgrade = true;
                }
                // a second Connection field behind the deciding one changes nothing
                if rng.chance(1, 5) {
                    r.hdrs.push((crate::recase(rng, "Connection"), (*rng.pick(&["keep-alive", "Keep-Alive", "x-trace"])).into()));
                }
            } else {
                match rng.below(4) {
                    0 => {}
                    1 => r.hdrs.push(("Connection".into(), "close".into())),
                    2 => r.hdrs.push(("Connection".into(), "foo".into())),
                    _ => r.hdrs.push(("connection".into(), "".into())),
                }
            }
            closes = true;
        } else if r.ver == (1, 0) {
            let v = *rng.pick(&["keep-alive", "Keep-Alive", "keep-alive, foo", "KEEP-ALIVE"]);
            r.hdrs.push((crate::recase(rng, "Connection"), v.into()));
            if rng.chance(1, 5) {
                r.hdrs.push((crate::recase(rng, "Connection"), (*rng.pick(&["x-trace", "foo"])).into()));
            }
        } else if rng.chance(1, 2) {
            let v = *rng.pick(&["keep-alive", "foo", "TE", "", "keepalive"]);
            r.hdrs.push((crate::recase(rng, "Connection"), v.into()));
        }
        r.last = closes;
        reqs.push(r);
        script.push(rich_action(i, rng, 0, false));
        if closes {
            // arbitrary further bytes: must not be interpreted
            let mut t = AReq::get("/after-close");
            t.class = "ignored";
            reqs.push(t);
            if rng.chance(1, 2) {
                reqs.push(AReq::bad("ignored", b"garbage\r\n\r\n".to_vec()));
            }
            break;
        }
    }
    let someone_closes = reqs.iter().any(|r| r.last);
    let mode = if !someone_closes && rng.chance(1, 2) { Mode::Open } else { Mode::HalfClose };
    if mode == Mode::Open {
        // no blocking reads, flushed raw writers only (rich_action always flushes)
        for a in script.iter_mut() {
            a.as_reader = 0;
            a.read_total = 0;
        }
    }
    // upgrade body = the rest of the stream
    let mut c = assemble(rng, &reqs, script, mode, "");
    if let Some(k) = reqs.iter().position(|r| r.upgrade) {
        // designated body of the upgrade request: all bytes after its head
        let mut tmp = Rng::new(1);
        let mut head_end = 0;
        for r in &reqs[..=k] {
            head_end += render(&mut tmp, r).len();
        }
        let _ = head_end;
        // rendering used random OWS, so recompute from the actual bytes: find the k-th head end
        let mut pos = 0;
        let mut heads = 0;
        while heads <= k {
            match c.bytes[pos..].windows(4).position(|w| w == b"\r\n\r\n") {
                Some(e) => {
                    pos += e + 4;
                    heads += 1;
                }
                None => break,
            }
        }
        let body = c.bytes[pos..].to_vec();
        let mut reqs2 = reqs.clone();
        reqs2[k].body = body;
        reqs2.truncate(k + 1);
        c.intent = intent_of(&reqs2);
    }
    c
}

/// C12: the request that ends the connection is an upload the client has only partly sent and
/// keeps open; the application answers without reading it.  The client must see the response and
/// then end-of-stream (the server's sending side closes once the last response is written), although
/// discarding the rest of the body — which answering a request includes — waits for the client.
pub fn gen_c12_stalled(rng: &mut Rng, gone: bool) -> ConnCase {
    let mut reqs = vec![];
    let mut script = vec![];
    if rng.chance(1, 2) {
        reqs.push(AReq::get("/before"));
        script.push(simple_action(0, rng));
    }
    let mut r = AReq::get("/upload");
    r.method = "POST".into();
    let total = *rng.pick(&[1500usize, 3000]);
    let fr = if rng.chance(1, 3) { Framing::Chunked } else { Framing::Len };
    set_body(rng, &mut r, fr, total);
    if rng.chance(1, 2) {
        r.hdrs.push((crate::recase(rng, "Connection"), "close".into()));
    } else {
        r.ver = (1, 0);
    }
    r.last = true;
    reqs.push(r);
    let k = script.len();
    script.push(Action { as_reader: 0, read_total: 0, buf: 1, delay_ms: 0, fin: Finish::Respond(ok_resp(k, rng)), zero_read: false });
    // ... or closes its sending side there: the rest of the body will never come, the answer is
    // sent and the connection ends
    let mut c = if gone { assemble(rng, &reqs, script, Mode::HalfClose, "i_cutbody=1") } else { assemble(rng, &reqs, script, Mode::Open, "i_stall=1") };
    // only the first part of the body is ever sent
    let cut = *rng.pick(&[1usize, 200, 1100]);
    // (the terminal chunk is cut off too — for a chunked body only: a Content-Length body may happen to end in those bytes)
    let chunked = reqs.last().map_or(false, |r| r.framing == Framing::Chunked);
    let keep = c.bytes.len() - (total - std::cmp::min(cut, total - 1)) - if chunked && c.bytes.ends_with(b"0\r\n\r\n") { 5 } else { 0 };
    c.bytes.truncate(std::cmp::min(keep, c.bytes.len()));
    c
}

/// C18: Expect: 100-continue with a client that withholds the body
pub fn gen_c18(rng: &mut Rng) -> ConnCase {
    let mut r = AReq::get("/expect");
    r.method = "POST".into();
    let expect = rng.chance(3, 4);
    if expect {
        r.hdrs.push((crate::recase(rng, "Expect"), (*rng.pick(&["100-continue", "100-Continue", "100-CONTINUE"])).to_string()));
        r.expect100 = true;
    }
    let n = *rng.pick(&[0usize, 1, 10, 1024, 1025, 3000]);
    let framing = if n > 0 && rng.chance(1, 4) { Framing::Chunked } else { Framing::Len };
    set_body(rng, &mut r, framing, n);
    // the expectation is not a matter of the protocol version
    if rng.chance(1, 4) {
        r.ver = (1, 0);
        r.hdrs.push(("Connection".into(), "keep-alive".into()));
    }
    // a client that does not wait for the interim response (it is entitled not to)
    let eager = expect && rng.chance(1, 3);
    let (ar, rd) = match rng.below(6) {
        0 => (0, 0),
        1 => (1, n),
        2 => (3, n),
        3 => (1, n / 2),
        // asks for the body and does not read: the interim response is due at the asking
        5 => (1, 0),
        _ => (2, n + 1),
    };
    let a = Action { as_reader: ar, read_total: rd, buf: *rng.pick(&[1usize, 100, 4096]), delay_ms: 0, fin: Finish::Respond(ok_resp(0, rng)), zero_read: false };
    let mut reqs = vec![r];
    let mut script = vec![a];
    if rng.chance(1, 2) {
        // what one request expected says nothing about the next: a following request without the
        // header, with or without a body that the application reads, gets its final response only
        let mut nx = AReq::get("/next");
        let mut a = simple_action(1, rng);
        if rng.chance(1, 2) {
            let m = *rng.pick(&[3usize, 1024, 1500]);
            nx.method = "POST".into();
            let fr = if rng.chance(1, 4) { Framing::Chunked } else { Framing::Len };
            set_body(rng, &mut nx, fr, m);
            a.as_reader = 1;
            a.read_total = m + 1;
            a.buf = 700;
        }
        reqs.push(nx);
        script.push(a);
    }
    let mut c = assemble(rng, &reqs, script, Mode::HalfClose, "");
    if expect {
        // withhold the body until the server says something — only when the application will
        // ask for it (otherwise a real client would time out and send anyway; we send at once)
        if ar > 0 && !eager {
            let head_end = c.bytes.windows(4).position(|w| w == b"\r\n\r\n").map(|p| p + 4).unwrap_or(0);
            c.hold = Some(head_end);
            // the interim response must be there before the body is released
            c.intent.push_str(" i_holdneed=1");
            // the interim response is due when the application asks for the body, however long
            // after the head arrived that is
            if rng.chance(1, 25) {
                c.script[0].delay_ms = PRE_DELAY + 1300;
                c.intent.push_str(" i_lateask=1");
            }
        }
    }
    c
}

/// mixed pipelines of good requests with all kinds of bodies and actions
pub fn gen_mixed(rng: &mut Rng) -> ConnCase {
    let n = rng.range(1, 5);
    let mut reqs = vec![];
    let mut script = vec![];
    for i in 0..n {
        let mut r = AReq::get(&format!("/m{}", i));
        r.method = (*rng.pick(&["GET", "HEAD", "POST", "DELETE", "OPTIONS"])).to_string();
        let mut blen = 0;
        if rng.chance(1, 2) {
            blen = *rng.pick(&[0usize, 1, 10, 1024, 1025, 3000]);
            let f = if rng.chance(1, 3) { Framing::Chunked } else { Framing::Len };
            set_body(rng, &mut r, f, blen);
        }
        if rng.chance(1, 5) {
            r.hdrs.push(("TE".into(), (*rng.pick(&["chunked", "identity;q=0.5, chunked;q=0.1", "trailers"])).to_string()));
        }
        reqs.push(r);
        script.push(rich_action(i, rng, blen, true));
    }
    assemble(rng, &reqs, script, Mode::HalfClose, "")
}

/// C06 / C18: the client sends the head and only part of a streamed body, then waits for the
/// server's answer before sending the rest; the handler drops / answers without needing the rest.
pub fn gen_hold(rng: &mut Rng) -> ConnCase {
    let mut r = AReq::get("/held");
    r.method = "POST".into();
    let expect = rng.chance(1, 3);
    if expect {
        r.hdrs.push(("Expect".into(), "100-continue".into()));
        r.expect100 = true;
    }
    let n = *rng.pick(&[1025usize, 4000, 9000]);
    let framing = if rng.chance(1, 4) { Framing::Chunked } else { Framing::Len };
    set_body(rng, &mut r, framing, n);
    // (not `into_writer`: it consumes the request, whose body reader discards the unread body
    //  *before* the raw writer is handed out — it cannot answer before the body arrived)
    let fin = match rng.below(3) {
        0 => Finish::Drop,
        1 => Finish::Panic,
        _ => Finish::Respond(ok_resp(0, rng)),
    };
    // the handler never asks for more than what the first phase delivered
    let sent_body = if expect { 0 } else { *rng.pick(&[0usize, 1, 100]) };
    let (ar, rd) = if expect || sent_body == 0 { (0, 0) } else { (1, rng.range(0, sent_body)) };
    let a = Action { as_reader: ar, read_total: rd, buf: 64, delay_ms: 0, fin, zero_read: false };
    let mut reqs = vec![r];
    let mut script = vec![a];
    if rng.chance(1, 2) {
        reqs.push(AReq::get("/next"));
        script.push(simple_action(1, rng));
    }
    let mut c = assemble(rng, &reqs, script, Mode::HalfClose, "i_holdneed=1");
    let head_end = c.bytes.windows(4).position(|w| w == b"\r\n\r\n").map(|p| p + 4).unwrap_or(0);
    // for a chunked body the first `sent_body` payload bytes sit behind a size line: keep it simple, hold at the head
    let extra = if reqs[0].framing == Framing::Len { sent_body } else { 0 };
    if reqs[0].framing != Framing::Len {
        c.script[0].as_reader = 0;
        c.script[0].read_total = 0;
    }
    c.hold = Some(head_end + extra);
    c
}

/// C10: an unsupported Expect value with a small body that the client withholds until it gets the verdict
pub fn gen_bad_expect_hold(rng: &mut Rng, pos: usize) -> ConnCase {
    let mut reqs = vec![];
    let mut script = vec![];
    for i in 0..pos {
        reqs.push(AReq::get(&format!("/good{}", i)));
        script.push(simple_action(i, rng));
    }
    let n = *rng.pick(&[1usize, 3, 1024]);
    let head = format!("POST /e HTTP/1.1\r\nHost: x\r\n{}: {}\r\nContent-Length: {}\r\n\r\n", crate::recase(rng, "Expect"), *rng.pick(&["200-ok", "bogus", "100-continue2"]), n);
    let mut raw = head.clone().into_bytes();
    raw.extend(std::iter::repeat(b'b').take(n));
    reqs.push(AReq::bad("e417", raw));
    script.push(simple_action(pos, rng));
    let mut c = assemble(rng, &reqs, script, Mode::HalfClose, "i_holdneed=1");
    c.hold = Some(c.bytes.len() - n);
    c
}

/// C06: `respond` with a body reader that fails midway, as the last request of a pipeline
pub fn gen_respfail(rng: &mut Rng) -> ConnCase {
    let k = rng.range(0, 2);
    let mut reqs = vec![];
    let mut script = vec![];
    for i in 0..k {
        reqs.push(AReq::get(&format!("/ok{}", i)));
        script.push(simple_action(i, rng));
    }
    let mut r = AReq::get("/fails");
    r.ver = if rng.chance(1, 3) { (1, 0) } else { (1, 1) };
    if r.ver == (1, 0) {
        r.hdrs.push(("Connection".into(), "keep-alive".into()));
    }
    if rng.chance(1, 5) {
        r.method = "HEAD".into();
    }
    reqs.push(r);
    let total = *rng.pick(&[20usize, 2000, 9000, 20000]);
    let body: Vec<u8> = (0..total).map(|i| b'a' + (i % 26) as u8).collect();
    let fail_after = *rng.pick(&[0usize, 10, total / 2, total - 1, total, total + 5]);
    let rs = RespSpec {
        status: *rng.pick(&[200u16, 404, 204]),
        hdrs: vec![],
        declared: if rng.chance(1, 3) { None } else { Some(total) },
        thr: if rng.chance(1, 3) { Some(0) } else { None },
        pieces: body.chunks(*rng.pick(&[7usize, 1000, 8192])).map(|c| c.to_vec()).collect(),
    };
    script.push(Action { as_reader: 0, read_total: 0, buf: 1, delay_ms: 0, fin: Finish::RespondFail(rs, fail_after), zero_read: false });
    assemble(rng, &reqs, script, Mode::HalfClose, "")
}
