use std::io::Write;
use std::net::TcpStream;
use std::time::Duration;
fn threads() -> usize { std::fs::read_dir("/proc/self/task").unwrap().count() }
#[test]
fn refused_request_behind_unreceived_requests_leaks_worker_after_drop() {
    let base = threads();
    let server = tiny_http::Server::http("127.0.0.1:0").unwrap();
    let addr = server.server_addr().to_ip().unwrap();
    let mut clients = vec![];
    for _ in 0..8 {
        let mut c = TcpStream::connect(addr).unwrap();
        c.write_all(b"GET /r0 HTTP/1.1\r\nHost: x\r\n\r\nGET /v HTTP/2.0\r\nHost: x\r\n\r\n").unwrap();
        clients.push(c);
    }
    std::thread::sleep(Duration::from_millis(500));
    drop(server);
    std::thread::sleep(Duration::from_millis(500));
    drop(clients);
    std::thread::sleep(Duration::from_secs(12));
    let after = threads();
    println!("F13 base={} after={}", base, after);
    assert!(after <= base, "threads left 12 s after drop and client close: base {} after {}", base, after);
}
