//! virtual `Instant`
use crate::sched::try_current;
use std::ops::{Add, Sub};
use std::time::Duration;

#[derive(Clone, Copy, Debug, PartialEq, Eq, PartialOrd, Ord, Hash)]
pub struct Instant(u64);

impl Instant {
    pub fn now() -> Instant {
        match try_current() {
            Some((rt, _)) => Instant(rt.now()),
            None => Instant(0),
        }
    }
    pub fn elapsed(&self) -> Duration {
        Duration::from_nanos(Instant::now().0.saturating_sub(self.0))
    }
    pub fn duration_since(&self, earlier: Instant) -> Duration {
        Duration::from_nanos(self.0.saturating_sub(earlier.0))
    }
    pub fn checked_duration_since(&self, earlier: Instant) -> Option<Duration> {
        self.0.checked_sub(earlier.0).map(Duration::from_nanos)
    }
    pub fn saturating_duration_since(&self, earlier: Instant) -> Duration {
        self.duration_since(earlier)
    }
    pub fn checked_add(&self, d: Duration) -> Option<Instant> {
        u64::try_from(d.as_nanos()).ok().and_then(|n| self.0.checked_add(n)).map(Instant)
    }
}

impl Add<Duration> for Instant {
    type Output = Instant;
    fn add(self, d: Duration) -> Instant {
        // as std: the sum must be representable
        self.checked_add(d).expect("overflow when adding duration to instant")
    }
}
impl Sub<Duration> for Instant {
    type Output = Instant;
    fn sub(self, d: Duration) -> Instant {
        Instant(self.0.saturating_sub(crate::sched::nanos_sat(d)))
    }
}
impl Sub<Instant> for Instant {
    type Output = Duration;
    fn sub(self, o: Instant) -> Duration {
        self.duration_since(o)
    }
}
