//! In-memory `TcpListener` / `TcpStream` with the method subset tiny-http uses, plus test-side
//! controls: exact segmentation (one `read` returns at most one written segment), half-close,
//! reset, injected write errors, a log of socket writes.
use crate::sched::{current, Res, Wake};
use std::collections::{HashMap, VecDeque};
use std::io::{self, ErrorKind, Read, Write};
use std::net::{IpAddr, Ipv4Addr, Shutdown, SocketAddr, ToSocketAddrs};
use std::sync::atomic::{AtomicUsize, Ordering};
use std::sync::{Arc, Mutex as StdMutex};

fn fresh_id() -> usize {
    static NEXT: AtomicUsize = AtomicUsize::new(1);
    NEXT.fetch_add(1, Ordering::Relaxed)
}

#[derive(Default)]
struct PipeState {
    segments: VecDeque<Vec<u8>>,
    fin: bool,          // writer shut down its side: readers see EOF after the data
    reset: bool,        // connection reset: reads and writes fail
    reset_when_empty: bool, // the peer reset after sending: queued bytes stay readable, then reads fail
    reader_gone: bool,  // reader shut down / dropped: writes fail with BrokenPipe
    fail_after: Option<(usize, ErrorKind)>, // injected: writes fail once this many bytes went through
    written: usize,
    writes: Vec<usize>, // size of every successful write call (the socket-write log)
}

pub struct Pipe {
    id: usize,
    st: StdMutex<PipeState>,
}

impl Pipe {
    fn new() -> Arc<Pipe> {
        Arc::new(Pipe { id: fresh_id(), st: StdMutex::new(PipeState::default()) })
    }
}

struct Endpoint {
    rd: Arc<Pipe>,
    wr: Arc<Pipe>,
    /// SO_RCVTIMEO: an option of the socket, shared by its clones
    rd_timeout: StdMutex<Option<std::time::Duration>>,
    /// O_NONBLOCK: a read / peek that would wait fails with `WouldBlock` at once
    nonblocking: std::sync::atomic::AtomicBool,
}

impl Drop for Endpoint {
    fn drop(&mut self) {
        // last handle of this side closed: FIN on our write pipe, our read pipe has no reader
        {
            let mut w = self.wr.st.lock().unwrap();
            w.fin = true;
        }
        {
            let mut r = self.rd.st.lock().unwrap();
            r.reader_gone = true;
        }
        if let Some((rt, _)) = crate::sched::try_current() {
            let mut g = rt.inner.lock().unwrap();
            g.wake_all_on(&Res::SockRead(self.wr.id), Wake::Ready);
        }
    }
}

pub struct TcpStream {
    ep: Arc<Endpoint>,
    local: SocketAddr,
    peer: SocketAddr,
    /// the peer reset the connection before it was accepted: `peer_addr` fails (ENOTCONN)
    peer_gone: bool,
}

impl TcpStream {
    pub fn connect<A: ToSocketAddrs>(addr: A) -> io::Result<TcpStream> {
        let (rt, me) = current();
        rt.yield_point(me);
        let addr = addr.to_socket_addrs()?.next().ok_or_else(|| io::Error::new(ErrorKind::InvalidInput, "no address"))?;
        let l = registry().lock().unwrap().get(&addr.port()).cloned();
        let l = match l {
            Some(l) => l,
            None => return Err(io::Error::new(ErrorKind::ConnectionRefused, "connection refused")),
        };
        let c2s = Pipe::new();
        let s2c = Pipe::new();
        let cport = 40000 + (fresh_id() % 20000) as u16;
        let caddr = SocketAddr::new(IpAddr::V4(Ipv4Addr::LOCALHOST), cport);
        let server = TcpStream { ep: Arc::new(Endpoint { rd: c2s.clone(), wr: s2c.clone(), rd_timeout: StdMutex::new(None), nonblocking: std::sync::atomic::AtomicBool::new(false) }), local: addr, peer: caddr, peer_gone: false };
        let client = TcpStream { ep: Arc::new(Endpoint { rd: s2c, wr: c2s, rd_timeout: StdMutex::new(None), nonblocking: std::sync::atomic::AtomicBool::new(false) }), local: caddr, peer: addr, peer_gone: false };
        {
            let mut q = l.st.lock().unwrap();
            if q.closed {
                return Err(io::Error::new(ErrorKind::ConnectionRefused, "connection refused"));
            }
            q.queue.push_back(server);
        }
        let mut g = rt.inner.lock().unwrap();
        g.log(me, format!("connect port {}", addr.port()));
        g.wake_all_on(&Res::Accept(l.id), Wake::Ready);
        Ok(client)
    }

    pub fn peer_addr(&self) -> io::Result<SocketAddr> {
        if self.peer_gone {
            return Err(io::Error::new(ErrorKind::NotConnected, "transport endpoint is not connected"));
        }
        Ok(self.peer)
    }

    /// test-side: a client that connects and resets before the server accepts: the accepted
    /// socket reports no peer address and fails every read and write
    pub fn connect_and_vanish<A: ToSocketAddrs>(addr: A) -> io::Result<()> {
        Self::connect_send_and_vanish(addr, &[])
    }

    /// test-side: a client that connects, sends `data` and resets before the server accepts
    /// (SO_LINGER 0 + close): the accepted socket reports no peer address, the queued bytes stay
    /// readable (as on Linux), after them every read fails; every write fails
    pub fn connect_send_and_vanish<A: ToSocketAddrs>(addr: A, data: &[u8]) -> io::Result<()> {
        let (rt, me) = current();
        rt.yield_point(me);
        let addr = addr.to_socket_addrs()?.next().ok_or_else(|| io::Error::new(ErrorKind::InvalidInput, "no address"))?;
        let l = registry().lock().unwrap().get(&addr.port()).cloned();
        let l = match l {
            Some(l) => l,
            None => return Err(io::Error::new(ErrorKind::ConnectionRefused, "connection refused")),
        };
        let c2s = Pipe::new();
        let s2c = Pipe::new();
        if data.is_empty() {
            c2s.st.lock().unwrap().reset = true;
        } else {
            let mut st = c2s.st.lock().unwrap();
            st.segments.push_back(data.to_vec());
            st.reset_when_empty = true;
        }
        s2c.st.lock().unwrap().reset = true;
        let caddr = SocketAddr::new(IpAddr::V4(Ipv4Addr::LOCALHOST), 39999);
        let server = TcpStream { ep: Arc::new(Endpoint { rd: c2s, wr: s2c, rd_timeout: StdMutex::new(None), nonblocking: std::sync::atomic::AtomicBool::new(false) }), local: addr, peer: caddr, peer_gone: true };
        {
            let mut q = l.st.lock().unwrap();
            if q.closed {
                return Err(io::Error::new(ErrorKind::ConnectionRefused, "connection refused"));
            }
            q.queue.push_back(server);
        }
        let mut g = rt.inner.lock().unwrap();
        g.log(me, format!("connect_and_vanish port {}", addr.port()));
        g.wake_all_on(&Res::Accept(l.id), Wake::Ready);
        Ok(())
    }
    pub fn local_addr(&self) -> io::Result<SocketAddr> {
        Ok(self.local)
    }
    pub fn try_clone(&self) -> io::Result<TcpStream> {
        Ok(TcpStream { ep: self.ep.clone(), local: self.local, peer: self.peer, peer_gone: self.peer_gone })
    }
    pub fn set_nodelay(&self, _: bool) -> io::Result<()> {
        Ok(())
    }
    /// as on Unix: a blocked read fails with `WouldBlock` once the timeout went by (virtual time)
    pub fn set_read_timeout(&self, t: Option<std::time::Duration>) -> io::Result<()> {
        if t == Some(std::time::Duration::ZERO) {
            return Err(io::Error::new(ErrorKind::InvalidInput, "cannot set a 0 duration timeout"));
        }
        *self.ep.rd_timeout.lock().unwrap() = t;
        Ok(())
    }
    pub fn set_write_timeout(&self, _: Option<std::time::Duration>) -> io::Result<()> {
        Ok(())
    }
    pub fn set_nonblocking(&self, on: bool) -> io::Result<()> {
        self.ep.nonblocking.store(on, std::sync::atomic::Ordering::SeqCst);
        Ok(())
    }
    /// as `read`, without consuming: what is returned stays readable (at most the first queued
    /// segment is shown, which a real socket may do as well)
    pub fn peek(&self, buf: &mut [u8]) -> io::Result<usize> {
        self.read_impl(buf, false)
    }

    pub fn shutdown(&self, how: Shutdown) -> io::Result<()> {
        let (rt, me) = current();
        if matches!(how, Shutdown::Write | Shutdown::Both) {
            self.ep.wr.st.lock().unwrap().fin = true;
            let mut g = rt.inner.lock().unwrap();
            g.log(me, format!("shutdown_write pipe{}", self.ep.wr.id));
            g.wake_all_on(&Res::SockRead(self.ep.wr.id), Wake::Ready);
        }
        if matches!(how, Shutdown::Read | Shutdown::Both) {
            self.ep.rd.st.lock().unwrap().reader_gone = true;
            rt.log(me, format!("shutdown_read pipe{}", self.ep.rd.id));
        }
        Ok(())
    }

    // ---- test-side controls ------------------------------------------------------------------

    /// abort the connection: both directions fail from now on (RST)
    pub fn reset(&self) {
        let (rt, me) = current();
        self.ep.wr.st.lock().unwrap().reset = true;
        self.ep.rd.st.lock().unwrap().reset = true;
        let mut g = rt.inner.lock().unwrap();
        g.log(me, "reset".into());
        g.wake_all_on(&Res::SockRead(self.ep.wr.id), Wake::Ready);
        g.wake_all_on(&Res::SockRead(self.ep.rd.id), Wake::Ready);
    }
    /// make the *peer's* writes fail with `kind` once `after` bytes have been written to us
    pub fn fail_peer_writes_after(&self, after: usize, kind: ErrorKind) {
        self.ep.rd.st.lock().unwrap().fail_after = Some((after, kind));
    }
    /// sizes of the peer's successful write calls towards us
    pub fn peer_write_log(&self) -> Vec<usize> {
        self.ep.rd.st.lock().unwrap().writes.clone()
    }
    /// non-blocking: everything the peer has written so far and we have not read yet; and EOF flag
    pub fn drain_available(&self) -> (Vec<u8>, bool, bool) {
        let mut st = self.ep.rd.st.lock().unwrap();
        let mut out = vec![];
        while let Some(s) = st.segments.pop_front() {
            out.extend_from_slice(&s);
        }
        (out, st.fin, st.reset)
    }
    pub fn read_pipe_id(&self) -> usize {
        self.ep.rd.id
    }
}

impl Read for TcpStream {
    fn read(&mut self, buf: &mut [u8]) -> io::Result<usize> {
        (&*self).read(buf)
    }
}

impl Read for &TcpStream {
    fn read(&mut self, buf: &mut [u8]) -> io::Result<usize> {
        self.read_impl(buf, true)
    }
}

impl TcpStream {
    fn read_impl(&self, buf: &mut [u8], consume: bool) -> io::Result<usize> {
        let (rt, me) = current();
        rt.yield_point(me);
        let mut waited_until: Option<u64> = None;
        loop {
            {
                let mut st = self.ep.rd.st.lock().unwrap();
                if st.reset {
                    return Err(io::Error::new(ErrorKind::ConnectionReset, "connection reset"));
                }
                if buf.is_empty() {
                    return Ok(0);
                }
                if let Some(seg) = st.segments.front_mut() {
                    let n = std::cmp::min(buf.len(), seg.len());
                    buf[..n].copy_from_slice(&seg[..n]);
                    if !consume {
                        return Ok(n);
                    }
                    if n == seg.len() {
                        st.segments.pop_front();
                    } else {
                        seg.drain(..n);
                    }
                    return Ok(n);
                }
                if st.reset_when_empty {
                    return Err(io::Error::new(ErrorKind::ConnectionReset, "connection reset"));
                }
                if st.fin || st.reader_gone {
                    return Ok(0);
                }
            }
            if self.ep.nonblocking.load(std::sync::atomic::Ordering::SeqCst) {
                return Err(io::Error::new(ErrorKind::WouldBlock, "resource temporarily unavailable"));
            }
            let deadline = self.ep.rd_timeout.lock().unwrap().map(|d| rt.now().saturating_add(crate::sched::nanos_sat(d)));
            if let Some(d) = deadline {
                if let Some(dl) = waited_until {
                    if rt.now() >= dl {
                        return Err(io::Error::new(ErrorKind::WouldBlock, "resource temporarily unavailable"));
                    }
                    rt.block(me, Res::SockRead(self.ep.rd.id), Some(dl));
                } else {
                    waited_until = Some(d);
                    rt.block(me, Res::SockRead(self.ep.rd.id), Some(d));
                }
            } else {
                rt.block(me, Res::SockRead(self.ep.rd.id), None);
            }
        }
    }
}

impl Write for TcpStream {
    fn write(&mut self, buf: &[u8]) -> io::Result<usize> {
        (&*self).write(buf)
    }
    fn flush(&mut self) -> io::Result<()> {
        Ok(())
    }
}

impl Write for &TcpStream {
    fn write(&mut self, buf: &[u8]) -> io::Result<usize> {
        let (rt, me) = current();
        rt.yield_point(me);
        let n;
        {
            let mut st = self.ep.wr.st.lock().unwrap();
            if st.reset {
                return Err(io::Error::new(ErrorKind::ConnectionReset, "connection reset"));
            }
            if st.fin {
                return Err(io::Error::new(ErrorKind::BrokenPipe, "write after shutdown"));
            }
            if st.reader_gone {
                return Err(io::Error::new(ErrorKind::BrokenPipe, "broken pipe"));
            }
            let mut len = buf.len();
            if let Some((after, kind)) = st.fail_after {
                if st.written >= after {
                    return Err(io::Error::new(kind, "injected write error"));
                }
                len = std::cmp::min(len, after - st.written);
            }
            if len > 0 {
                st.segments.push_back(buf[..len].to_vec());
                st.written += len;
                st.writes.push(len);
            }
            n = len;
        }
        let mut g = rt.inner.lock().unwrap();
        g.log(me, format!("sockwrite pipe{} {}", self.ep.wr.id, n));
        g.wake_all_on(&Res::SockRead(self.ep.wr.id), Wake::Ready);
        Ok(n)
    }
    fn flush(&mut self) -> io::Result<()> {
        Ok(())
    }
}

impl std::fmt::Debug for TcpStream {
    fn fmt(&self, f: &mut std::fmt::Formatter<'_>) -> std::fmt::Result {
        write!(f, "TcpStream({} -> {})", self.local, self.peer)
    }
}

// ---------------------------------------------------------------------------------------------

struct ListenerState {
    queue: VecDeque<TcpStream>,
    closed: bool,
}

struct ListenerInner {
    id: usize,
    port: u16,
    st: StdMutex<ListenerState>,
}

fn registry() -> &'static StdMutex<HashMap<u16, Arc<ListenerInner>>> {
    static R: std::sync::OnceLock<StdMutex<HashMap<u16, Arc<ListenerInner>>>> = std::sync::OnceLock::new();
    R.get_or_init(|| StdMutex::new(HashMap::new()))
}

pub struct TcpListener {
    inner: Arc<ListenerInner>,
}

impl TcpListener {
    pub fn bind<A: ToSocketAddrs>(addr: A) -> io::Result<TcpListener> {
        let addr = addr.to_socket_addrs()?.next().ok_or_else(|| io::Error::new(ErrorKind::InvalidInput, "no address"))?;
        let mut reg = registry().lock().unwrap();
        let port = if addr.port() == 0 {
            let mut p = 10000 + (fresh_id() % 20000) as u16;
            while reg.contains_key(&p) {
                p += 1;
            }
            p
        } else {
            if reg.contains_key(&addr.port()) {
                return Err(io::Error::new(ErrorKind::AddrInUse, "address in use"));
            }
            addr.port()
        };
        let inner = Arc::new(ListenerInner { id: fresh_id(), port, st: StdMutex::new(ListenerState { queue: VecDeque::new(), closed: false }) });
        reg.insert(port, inner.clone());
        Ok(TcpListener { inner })
    }

    pub fn local_addr(&self) -> io::Result<SocketAddr> {
        Ok(SocketAddr::new(IpAddr::V4(Ipv4Addr::LOCALHOST), self.inner.port))
    }

    pub fn accept(&self) -> io::Result<(TcpStream, SocketAddr)> {
        let (rt, me) = current();
        rt.yield_point(me);
        loop {
            {
                let mut st = self.inner.st.lock().unwrap();
                if let Some(s) = st.queue.pop_front() {
                    let peer = s.peer;
                    drop(st);
                    rt.log(me, format!("accept port {}", self.inner.port));
                    return Ok((s, peer));
                }
            }
            rt.block(me, Res::Accept(self.inner.id), None);
        }
    }
}

impl Drop for TcpListener {
    fn drop(&mut self) {
        self.inner.st.lock().unwrap().closed = true;
        registry().lock().unwrap().remove(&self.inner.port);
        if let Some((rt, me)) = crate::sched::try_current() {
            rt.log(me, format!("listener_closed port {}", self.inner.port));
        }
    }
}

impl std::fmt::Debug for TcpListener {
    fn fmt(&self, f: &mut std::fmt::Formatter<'_>) -> std::fmt::Result {
        write!(f, "TcpListener({})", self.inner.port)
    }
}
