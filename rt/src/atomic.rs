//! `std::sync::atomic` look-alikes.  `AtomicBool` is a scheduling point: with probability
//! `p_atomic` the thread is preempted right BEFORE the access, unless it holds one of the
//! runtime's mutexes (the LTS models treat a locked block as one step).  This is what lets a flag
//! that is set too late — after the operation that wakes its reader — be observed too late.
//! The other atomic types are std's (the pool's counters are read inside its locked blocks and
//! changed next to events that label model steps; see DESIGN.md section 4).
use crate::sched::try_current;
pub use std::sync::atomic::{fence, AtomicI32, AtomicI64, AtomicIsize, AtomicU32, AtomicU64, AtomicU8, AtomicUsize, Ordering};

#[derive(Debug, Default)]
pub struct AtomicBool(std::sync::atomic::AtomicBool);

fn point() {
    if let Some((rt, me)) = try_current() {
        if crate::sync::held_mutexes() == 0 {
            rt.maybe_yield_atomic(me);
        }
    }
}

impl AtomicBool {
    pub const fn new(v: bool) -> AtomicBool {
        AtomicBool(std::sync::atomic::AtomicBool::new(v))
    }
    pub fn load(&self, o: Ordering) -> bool {
        point();
        self.0.load(o)
    }
    pub fn store(&self, v: bool, o: Ordering) {
        point();
        self.0.store(v, o)
    }
    pub fn swap(&self, v: bool, o: Ordering) -> bool {
        point();
        self.0.swap(v, o)
    }
    pub fn fetch_or(&self, v: bool, o: Ordering) -> bool {
        point();
        self.0.fetch_or(v, o)
    }
    pub fn fetch_and(&self, v: bool, o: Ordering) -> bool {
        point();
        self.0.fetch_and(v, o)
    }
    pub fn compare_exchange(&self, c: bool, n: bool, s: Ordering, f: Ordering) -> Result<bool, bool> {
        point();
        self.0.compare_exchange(c, n, s, f)
    }
    pub fn into_inner(self) -> bool {
        self.0.into_inner()
    }
    pub fn get_mut(&mut self) -> &mut bool {
        self.0.get_mut()
    }
}
