//! The scheduler: every controlled thread is an OS thread, but exactly one holds the baton.
//! At every synchronisation operation the running thread reports the event and the scheduler
//! picks the next thread among the runnable ones (seeded random walk, or a recorded choice list).
//! Time is virtual: it advances only by scheduler decision (to the earliest pending deadline).
use std::cell::RefCell;
use std::sync::{Arc, Condvar as StdCondvar, Mutex as StdMutex};

#[derive(Clone, Debug, PartialEq)]
pub enum Res {
    Mutex(usize),
    Condvar(usize),
    Chan(usize),
    Sleep,
    Join(usize),
    Accept(usize),
    SockRead(usize),
    Settle,
}

#[derive(Clone, Copy, Debug, PartialEq)]
pub enum Wake {
    None,
    Notified,
    Timeout,
    Spurious,
    Ready, // the resource became available (mutex unlocked, message sent, data arrived, thread ended)
    Quiescent,
}

#[derive(Clone, Debug, PartialEq)]
pub enum TState {
    Runnable,
    Running,
    Blocked { on: Res, deadline: Option<u64> },
    Finished,
}

pub struct ThreadInfo {
    pub name: String,
    pub state: TState,
    pub wake: Wake,
    cv: Arc<StdCondvar>,
}

#[derive(Clone, Debug)]
pub struct Event {
    pub t: u64,      // virtual ns
    pub tid: usize,
    pub what: String,
}

pub struct Inner {
    pub threads: Vec<ThreadInfo>,
    pub current: usize,
    pub clock: u64,
    rng: u64,
    pub events: Vec<Event>,
    pub log_enabled: bool,
    pub next_id: usize,
    /// probability (per 1000 scheduling decisions) of firing the earliest timer although
    /// other threads are runnable, and of a spurious condvar wake-up
    pub p_timer: u64,
    pub p_spurious: u64,
    pub p_preempt: u64,
    pub p_atomic: u64,
    /// threads preempted right now while holding a mutex: locked blocks stay instantaneous, no
    /// timer fires early and no spurious wake-up happens meanwhile
    pub holding: usize,
    pub steps: u64,
    pub max_steps: u64,
    pub aborted: bool,
    /// the driver thread was part of a deadlock: the scenario is abandoned
    pub deadlocked: bool,
    /// the driver thread's closure has returned
    pub driver_done: bool,
    /// threads that ended by panicking (counted whether or not the event log is on)
    pub panics: usize,
    /// PCT-like bias: a thread that is "preferred" keeps the baton with this probability (per 1000)
    pub p_stay: u64,
}

pub struct Runtime {
    pub inner: StdMutex<Inner>,
    /// signalled when the driver thread has finished or has been deadlocked
    pub done: StdCondvar,
}

thread_local! {
    static CUR: RefCell<Option<(Arc<Runtime>, usize)>> = RefCell::new(None);
}

pub fn current() -> (Arc<Runtime>, usize) {
    CUR.with(|c| c.borrow().clone()).expect("verif_rt primitive used outside a controlled thread")
}

pub fn try_current() -> Option<(Arc<Runtime>, usize)> {
    CUR.with(|c| c.borrow().clone())
}

pub fn set_current(rt: Arc<Runtime>, tid: usize) {
    CUR.with(|c| *c.borrow_mut() = Some((rt, tid)));
}

pub struct Config {
    pub seed: u64,
    pub p_timer: u64,
    pub p_spurious: u64,
    pub p_stay: u64,
    /// per mille: a thread that has just taken a mutex is preempted while holding it
    pub p_preempt: u64,
    /// per mille: a thread about to access an `AtomicBool` (holding no mutex) is preempted first
    pub p_atomic: u64,
    pub max_steps: u64,
    pub log: bool,
}

impl Default for Config {
    fn default() -> Self {
        Config { seed: 1, p_timer: 30, p_spurious: 0, p_stay: 0, p_preempt: 0, p_atomic: 0, max_steps: 2_000_000, log: true }
    }
}

impl Inner {
    fn rand(&mut self) -> u64 {
        self.rng = self.rng.wrapping_add(0x9E37_79B9_7F4A_7C15);
        let mut z = self.rng;
        z = (z ^ (z >> 30)).wrapping_mul(0xBF58_476D_1CE4_E5B9);
        z = (z ^ (z >> 27)).wrapping_mul(0x94D0_49BB_1331_11EB);
        z ^ (z >> 31)
    }
    pub fn below(&mut self, n: usize) -> usize {
        (self.rand() % (n as u64)) as usize
    }
    pub fn fresh_id(&mut self) -> usize {
        self.next_id += 1;
        self.next_id
    }
    pub fn log(&mut self, tid: usize, what: String) {
        // (a scenario that runs into its step budget is abandoned with its threads parked for ever:
        // its log must not grow without bound, nor stay allocated — see `try_run`)
        if self.log_enabled && self.events.len() < 600_000 {
            let t = self.clock;
            self.events.push(Event { t, tid, what });
        }
    }
    pub fn wake(&mut self, tid: usize, reason: Wake) {
        if let TState::Blocked { .. } = self.threads[tid].state {
            self.threads[tid].state = TState::Runnable;
            self.threads[tid].wake = reason;
        }
    }
    /// wake every thread blocked on `res`
    pub fn wake_all_on(&mut self, res: &Res, reason: Wake) -> Vec<usize> {
        let ids: Vec<usize> = self
            .threads
            .iter()
            .enumerate()
            .filter(|(_, t)| matches!(&t.state, TState::Blocked { on, .. } if on == res))
            .map(|(i, _)| i)
            .collect();
        for &i in &ids {
            self.wake(i, reason);
        }
        ids
    }
    pub fn blocked_on(&self, res: &Res) -> Vec<usize> {
        self.threads
            .iter()
            .enumerate()
            .filter(|(_, t)| matches!(&t.state, TState::Blocked { on, .. } if on == res))
            .map(|(i, _)| i)
            .collect()
    }
    fn earliest_timer(&self) -> Option<(usize, u64)> {
        let mut best: Option<(usize, u64)> = None;
        for (i, t) in self.threads.iter().enumerate() {
            if let TState::Blocked { deadline: Some(d), on } = &t.state {
                if *on == Res::Settle {
                    continue;
                }
                // a saturated deadline (`Duration::MAX` and the like) never comes
                if *d == u64::MAX {
                    continue;
                }
                if best.map_or(true, |(_, bd)| *d < bd) {
                    best = Some((i, *d));
                }
            }
        }
        best
    }
    fn fire_timer(&mut self, tid: usize, deadline: u64) {
        if deadline > self.clock {
            self.clock = deadline;
        }
        self.threads[tid].state = TState::Runnable;
        self.threads[tid].wake = Wake::Timeout;
        self.log(tid, "timer".into());
    }
    /// choose who runs next; None = nobody can (all blocked without timers, or finished)
    fn pick(&mut self, me: usize) -> Option<usize> {
        loop {
            let runnable: Vec<usize> =
                self.threads.iter().enumerate().filter(|(_, t)| t.state == TState::Runnable).map(|(i, _)| i).collect();
            if !runnable.is_empty() {
                // occasionally let time pass although somebody could run
                if self.p_timer > 0 && self.holding == 0 {
                    if let Some((tid, d)) = self.earliest_timer() {
                        if (self.rand() % 1000) < self.p_timer {
                            self.fire_timer(tid, d);
                            continue;
                        }
                    }
                }
                // occasionally a condition variable lets a waiter go for no reason at all
                // (only while the driver thread is settling: once it has been told that everything is
                // quiet, what it observes must stay as it is)
                if self.p_spurious > 0
                    && self.holding == 0
                    && matches!(&self.threads[0].state, TState::Blocked { on: Res::Settle, .. })
                    && (self.rand() % 1000) < self.p_spurious
                {
                    let waiters: Vec<usize> = self
                        .threads
                        .iter()
                        .enumerate()
                        .filter(|(_, t)| matches!(&t.state, TState::Blocked { on: Res::Condvar(_), .. }))
                        .map(|(i, _)| i)
                        .collect();
                    if !waiters.is_empty() {
                        let k = self.below(waiters.len());
                        let w = waiters[k];
                        self.threads[w].state = TState::Runnable;
                        self.threads[w].wake = Wake::Spurious;
                        self.log(w, "spurious".into());
                        continue;
                    }
                }
                if self.p_stay > 0 && runnable.contains(&me) && (self.rand() % 1000) < self.p_stay {
                    return Some(me);
                }
                let k = self.below(runnable.len());
                return Some(runnable[k]);
            }
            // nobody runnable: let time pass, up to the deadline of a settling thread
            let settle: Vec<usize> = self.blocked_on(&Res::Settle);
            let settle_deadline = settle.first().and_then(|&s| match &self.threads[s].state {
                TState::Blocked { deadline, .. } => *deadline,
                _ => None,
            });
            if let Some((tid, d)) = self.earliest_timer() {
                match (settle.first(), settle_deadline) {
                    (Some(&s), Some(ds)) if ds <= d => {
                        if ds > self.clock {
                            self.clock = ds;
                        }
                        self.threads[s].state = TState::Runnable;
                        self.threads[s].wake = Wake::Timeout;
                    }
                    _ => self.fire_timer(tid, d),
                }
                continue;
            }
            // a settling thread is told that everything is quiet
            if let Some(&s) = settle.first() {
                self.threads[s].state = TState::Runnable;
                self.threads[s].wake = Wake::Quiescent;
                continue;
            }
            return None;
        }
    }
}

impl Runtime {
    pub fn new(cfg: &Config) -> Arc<Runtime> {
        Arc::new(Runtime {
            inner: StdMutex::new(Inner {
                threads: vec![],
                current: 0,
                clock: 0,
                rng: cfg.seed ^ 0x5DEECE66D,
                events: vec![],
                log_enabled: cfg.log,
                next_id: 0,
                p_timer: cfg.p_timer,
                p_spurious: cfg.p_spurious,
                p_preempt: cfg.p_preempt,
                p_atomic: cfg.p_atomic,
                holding: 0,
                steps: 0,
                max_steps: cfg.max_steps,
                aborted: false,
                deadlocked: false,
                driver_done: false,
                panics: 0,
                p_stay: cfg.p_stay,
            }),
            done: StdCondvar::new(),
        })
    }

    pub fn register(&self, name: String, state: TState) -> usize {
        let mut g = self.inner.lock().unwrap();
        g.threads.push(ThreadInfo { name, state, wake: Wake::None, cv: Arc::new(StdCondvar::new()) });
        g.threads.len() - 1
    }

    /// The calling thread (holding the baton) gives it up with the given new state and waits
    /// until it is handed the baton again.  Returns the wake reason.
    pub fn switch(&self, me: usize, new_state: TState) -> Wake {
        let mut g = self.inner.lock().unwrap();
        g.threads[me].state = new_state;
        g.threads[me].wake = Wake::None;
        g.steps += 1;
        if g.steps > g.max_steps {
            g.aborted = true;
        }
        if g.aborted {
            // step budget exhausted: only the driver thread keeps running
            if me == 0 && matches!(g.threads[0].state, TState::Blocked { on: Res::Mutex(_), .. }) {
                // ... unless it needs a lock that one of the stopped threads holds
                g.deadlocked = true;
                self.done.notify_all();
                let cv = g.threads[me].cv.clone();
                loop {
                    g = cv.wait(g).unwrap();
                }
            }
            if me == 0 {
                g.threads[0].state = TState::Running;
                g.current = 0;
                return Wake::Quiescent;
            }
            if let TState::Blocked { .. } = g.threads[0].state {
                g.threads[0].state = TState::Running;
                g.threads[0].wake = Wake::Quiescent;
                g.current = 0;
                g.threads[0].cv.notify_one();
            }
        }
        let next = if g.aborted { None } else { g.pick(me) };
        if next.is_none() && !g.aborted {
            // global deadlock including the driver thread: cannot continue
            if me == 0 || matches!(g.threads[0].state, TState::Blocked { .. }) {
                if std::env::var("VERIF_RT_DEADLOCK_EXIT").is_err() {
                    // the code under test has deadlocked the driver thread with it (for instance the
                    // driver took a lock that a thread blocked for ever still holds): the scenario
                    // is over.  `run` (waiting on the real main thread) is told; every controlled
                    // thread, the driver included, sleeps for ever and is abandoned
                    g.aborted = true;
                    g.deadlocked = true;
                    self.done.notify_all();
                    let cv = g.threads[me].cv.clone();
                    loop {
                        g = cv.wait(g).unwrap();
                    }
                }
                eprintln!("CHECK-ERROR verif_rt: the driver thread is blocked and nothing can run (use settle())");
                if std::env::var("VERIF_DEBUG").is_ok() {
                    for (i, t) in g.threads.iter().enumerate() {
                        eprintln!("  t{} {} {:?}", i, t.name, t.state);
                    }
                    for e in g.events.iter().rev().take(30).rev() {
                        eprintln!("  ev t{} @{} {}", e.tid, e.t, e.what);
                    }
                }
                std::process::exit(3);
            }
        }
        match next {
            Some(n) if n == me => {
                g.threads[me].state = TState::Running;
                g.current = me;
                return g.threads[me].wake;
            }
            Some(n) => {
                g.threads[n].state = TState::Running;
                g.current = n;
                g.threads[n].cv.notify_one();
            }
            None => {
                // nothing can run any more: this thread (and all others) sleep forever; the
                // driver thread (tid 0) is woken specially if it is the one settling — handled in pick
            }
        }
        let cv = g.threads[me].cv.clone();
        loop {
            if g.current == me && g.threads[me].state == TState::Running {
                return g.threads[me].wake;
            }
            g = cv.wait(g).unwrap();
        }
    }

    /// after taking a mutex: with probability `p_preempt` the thread is preempted while holding it
    pub fn maybe_preempt(&self, me: usize) {
        let go = {
            let mut g = self.inner.lock().unwrap();
            g.p_preempt > 0 && !g.aborted && (g.rand() % 1000) < g.p_preempt
        };
        if go {
            self.log(me, "preempted".into());
            self.inner.lock().unwrap().holding += 1;
            self.switch(me, TState::Runnable);
            self.inner.lock().unwrap().holding -= 1;
        }
    }

    /// before an `AtomicBool` access (no mutex held): with probability `p_atomic` others run first
    pub fn maybe_yield_atomic(&self, me: usize) {
        let go = {
            let mut g = self.inner.lock().unwrap();
            g.p_atomic > 0 && !g.aborted && (g.rand() % 1000) < g.p_atomic
        };
        if go {
            self.log(me, "atomic-yield".into());
            self.switch(me, TState::Runnable);
        }
    }

    /// a scheduling point that keeps the thread runnable
    pub fn yield_point(&self, me: usize) {
        self.switch(me, TState::Runnable);
    }

    pub fn block(&self, me: usize, on: Res, deadline: Option<u64>) -> Wake {
        self.switch(me, TState::Blocked { on, deadline })
    }

    /// the thread ends: hand the baton on and never come back
    pub fn finish(&self, me: usize) {
        let mut g = self.inner.lock().unwrap();
        g.threads[me].state = TState::Finished;
        g.wake_all_on(&Res::Join(me), Wake::Ready);
        g.log(me, "exit".into());
        if let Some(n) = if g.aborted { None } else { g.pick(me) } {
            g.threads[n].state = TState::Running;
            g.current = n;
            g.threads[n].cv.notify_one();
        }
    }

    /// first scheduling of a freshly spawned thread: wait for the baton
    pub fn wait_for_baton(&self, me: usize) {
        let mut g = self.inner.lock().unwrap();
        let cv = g.threads[me].cv.clone();
        loop {
            if g.current == me && g.threads[me].state == TState::Running {
                return;
            }
            g = cv.wait(g).unwrap();
        }
    }

    pub fn now(&self) -> u64 {
        self.inner.lock().unwrap().clock
    }

    pub fn log(&self, tid: usize, what: String) {
        self.inner.lock().unwrap().log(tid, what);
    }
}

// ---- API for the harness -----------------------------------------------------------------------

pub struct Report {
    pub events: Vec<Event>,
    pub clock: u64,
    pub threads: Vec<(String, TState)>,
    pub aborted: bool,
    /// threads that ended by panicking (counted whether or not the event log is on)
    pub panics: usize,
    /// scheduling decisions taken
    pub steps: u64,
}

/// Runs `f` as controlled thread 0 under a fresh runtime.  Threads that are still blocked or
/// runnable when `f` returns are abandoned (they sleep forever on their private condvar): run
/// batches of scenarios in a child process.
pub fn run<R: Send + 'static, F: FnOnce() -> R + Send + 'static>(cfg: &Config, f: F) -> (R, Report) {
    match try_run(cfg, f) {
        (Some(r), rep) => (r, rep),
        // unwinds the CALLER's frames only: the scenario's own frames (and the library objects on
        // them) live on the abandoned driver thread
        (None, _) => panic!("verif_rt: deadlock involving the driver thread"),
    }
}

/// As `run`, on a separate OS thread: if the code under test deadlocks the driver thread with it,
/// the whole scenario (driver thread included) is abandoned and `None` is returned with a report
/// whose `aborted` is set.
pub fn try_run<R: Send + 'static, F: FnOnce() -> R + Send + 'static>(cfg: &Config, f: F) -> (Option<R>, Report) {
    let rt = Runtime::new(cfg);
    let tid = rt.register("main".into(), TState::Running);
    let result: Arc<StdMutex<Option<R>>> = Arc::new(StdMutex::new(None));
    let (rt2, res2) = (rt.clone(), result.clone());
    std::thread::Builder::new()
        .stack_size(8 << 20)
        .spawn(move || {
            set_current(rt2.clone(), tid);
            // a scenario that panics (for instance on a lock poisoned by the code under test) is
            // over, like one that deadlocks: `try_run` returns `None`
            let r = std::panic::catch_unwind(std::panic::AssertUnwindSafe(f));
            CUR.with(|c| *c.borrow_mut() = None);
            let mut g = rt2.inner.lock().unwrap();
            match r {
                Ok(r) => {
                    *res2.lock().unwrap() = Some(r);
                    g.driver_done = true;
                }
                Err(_) => {
                    g.aborted = true;
                    g.deadlocked = true;
                }
            }
            rt2.done.notify_all();
        })
        .expect("spawn driver thread");
    let mut g = rt.inner.lock().unwrap();
    while !g.driver_done && !g.deadlocked {
        g = rt.done.wait(g).unwrap();
    }
    let rep = Report {
        // moved out, not copied: the runtime of an abandoned scenario stays alive with its parked threads
        events: { g.log_enabled = false; std::mem::take(&mut g.events) },
        clock: g.clock,
        threads: g.threads.iter().map(|t| (t.name.clone(), t.state.clone())).collect(),
        aborted: g.aborted,
        panics: g.panics,
        steps: g.steps,
    };
    let finished = g.driver_done;
    drop(g);
    let r = if finished { result.lock().unwrap().take() } else { None };
    (r, rep)
}

/// Block the calling thread until every other thread is blocked with no timer pending (returns
/// true), or until `max_ns` of virtual time went by (false).
pub fn settle(max_ns: u64) -> bool {
    let (rt, me) = current();
    let d = rt.now() + max_ns;
    // the Settle resource is special: its deadline is only used once nothing else can happen
    let w = rt.block(me, Res::Settle, Some(d));
    w == Wake::Quiescent
}

/// virtual clock, in ns
/// a duration in nanoseconds, `u64::MAX` when it does not fit (waits "for ever", `Duration::MAX`)
pub fn nanos_sat(d: std::time::Duration) -> u64 {
    u64::try_from(d.as_nanos()).unwrap_or(u64::MAX)
}

pub fn now_ns() -> u64 {
    current().0.now()
}

pub fn log(what: &str) {
    let (rt, me) = current();
    rt.log(me, what.to_string());
}

/// snapshot of (name, state) of all threads
pub fn threads() -> Vec<(String, TState)> {
    let (rt, _) = current();
    let g = rt.inner.lock().unwrap();
    g.threads.iter().map(|t| (t.name.clone(), t.state.clone())).collect()
}

pub fn events() -> Vec<Event> {
    let (rt, _) = current();
    let g = rt.inner.lock().unwrap();
    g.events.clone()
}

pub fn aborted() -> bool {
    let (rt, _) = current();
    let g = rt.inner.lock().unwrap();
    g.aborted
}
