//! `std::sync` look-alikes driven by the scheduler: Mutex, Condvar, mpsc channels.
use crate::sched::{current, Res, TState, Wake};
use std::cell::UnsafeCell;
use std::collections::VecDeque;
use std::ops::{Deref, DerefMut};
use std::panic::Location;
use std::sync::atomic::{AtomicBool, AtomicUsize, Ordering};
use std::sync::{Arc, LockResult, PoisonError, TryLockError, TryLockResult};
use std::time::Duration;

fn fresh_id() -> usize {
    static NEXT: AtomicUsize = AtomicUsize::new(1);
    NEXT.fetch_add(1, Ordering::Relaxed)
}

thread_local! {
    static HELD: std::cell::Cell<usize> = std::cell::Cell::new(0);
}

/// how many of the runtime's mutexes the calling thread holds
pub fn held_mutexes() -> usize {
    HELD.with(|h| h.get())
}

fn site_of(l: &Location<'_>) -> String {
    let f = l.file();
    let base = f.rsplit('/').next().unwrap_or(f);
    format!("{}:{}", base, l.line())
}

// ---------------------------------------------------------------------------------------------
// Mutex

pub struct Mutex<T: ?Sized> {
    id: usize,
    site: String,
    locked: AtomicBool,
    poisoned: AtomicBool,
    data: UnsafeCell<T>,
}

unsafe impl<T: ?Sized + Send> Send for Mutex<T> {}
unsafe impl<T: ?Sized + Send> Sync for Mutex<T> {}

pub struct MutexGuard<'a, T: ?Sized + 'a> {
    m: &'a Mutex<T>,
    /// was the thread already panicking when the lock was taken? (std's poison::Guard)
    panicking_at_lock: bool,
}

impl<T> Mutex<T> {
    #[track_caller]
    pub fn new(t: T) -> Mutex<T> {
        Mutex { id: fresh_id(), site: site_of(Location::caller()), locked: AtomicBool::new(false), poisoned: AtomicBool::new(false), data: UnsafeCell::new(t) }
    }
    pub fn into_inner(self) -> LockResult<T> {
        Ok(self.data.into_inner())
    }
}

impl<T: ?Sized> Mutex<T> {
    pub fn site(&self) -> &str {
        &self.site
    }
    fn acquire(&self) {
        let (rt, me) = current();
        rt.yield_point(me);
        loop {
            if !self.locked.swap(true, Ordering::SeqCst) {
                break;
            }
            rt.block(me, Res::Mutex(self.id), None);
        }
        // the thread may be preempted here, holding the mutex; the `lock` event marks the start of
        // the part of the locked block that runs without interruption (every read the block makes
        // of state that other threads change without the mutex happens after it)
        HELD.with(|h| h.set(h.get() + 1));
        rt.maybe_preempt(me);
        rt.log(me, format!("lock {}", self.site));
    }
    pub fn lock(&self) -> LockResult<MutexGuard<'_, T>> {
        self.acquire();
        let g = MutexGuard { m: self, panicking_at_lock: std::thread::panicking() };
        if self.poisoned.load(Ordering::SeqCst) {
            Err(PoisonError::new(g))
        } else {
            Ok(g)
        }
    }
    /// as std: never blocks; `WouldBlock` while another thread holds the lock
    pub fn try_lock(&self) -> TryLockResult<MutexGuard<'_, T>> {
        let (rt, me) = current();
        rt.yield_point(me);
        if self.locked.swap(true, Ordering::SeqCst) {
            rt.log(me, format!("trylock-busy {}", self.site));
            return Err(TryLockError::WouldBlock);
        }
        HELD.with(|h| h.set(h.get() + 1));
        rt.log(me, format!("lock {}", self.site));
        let g = MutexGuard { m: self, panicking_at_lock: std::thread::panicking() };
        if self.poisoned.load(Ordering::SeqCst) {
            Err(TryLockError::Poisoned(PoisonError::new(g)))
        } else {
            Ok(g)
        }
    }
    fn release(&self) {
        let (rt, me) = current();
        HELD.with(|h| h.set(h.get().saturating_sub(1)));
        self.locked.store(false, Ordering::SeqCst);
        let mut g = rt.inner.lock().unwrap();
        g.log(me, format!("unlock {}", self.site));
        g.wake_all_on(&Res::Mutex(self.id), Wake::Ready);
    }
}

impl<'a, T: ?Sized> Deref for MutexGuard<'a, T> {
    type Target = T;
    fn deref(&self) -> &T {
        unsafe { &*self.m.data.get() }
    }
}
impl<'a, T: ?Sized> DerefMut for MutexGuard<'a, T> {
    fn deref_mut(&mut self) -> &mut T {
        unsafe { &mut *self.m.data.get() }
    }
}
impl<'a, T: ?Sized> Drop for MutexGuard<'a, T> {
    fn drop(&mut self) {
        if !self.panicking_at_lock && std::thread::panicking() {
            self.m.poisoned.store(true, Ordering::SeqCst);
        }
        self.m.release();
    }
}

// ---------------------------------------------------------------------------------------------
// Condvar

pub struct Condvar {
    id: usize,
    site: String,
}

#[derive(Clone, Copy, Debug, PartialEq, Eq)]
pub struct WaitTimeoutResult(bool);

impl WaitTimeoutResult {
    pub fn timed_out(&self) -> bool {
        self.0
    }
}

impl Default for Condvar {
    #[track_caller]
    fn default() -> Self {
        Condvar::new()
    }
}

impl Condvar {
    #[track_caller]
    pub fn new() -> Condvar {
        Condvar { id: fresh_id(), site: site_of(Location::caller()) }
    }

    fn wait_inner<'a, T>(&self, guard: MutexGuard<'a, T>, dur: Option<Duration>) -> (MutexGuard<'a, T>, Wake) {
        let (rt, me) = current();
        let m = guard.m;
        // atomically: release the mutex and start waiting
        std::mem::forget(guard);
        m.locked.store(false, Ordering::SeqCst);
        let deadline = {
            let mut g = rt.inner.lock().unwrap();
            let d = dur.map(|d| g.clock.saturating_add(crate::sched::nanos_sat(d)));
            g.log(me, format!("wait {} {}", self.site, match dur { Some(d) => d.as_nanos().to_string(), None => "inf".into() }));
            g.wake_all_on(&Res::Mutex(m.id), Wake::Ready);
            d
        };
        let w = rt.block(me, Res::Condvar(self.id), deadline);
        rt.log(me, format!("woke {} {:?}", self.site, w));
        // re-acquire
        loop {
            if !m.locked.swap(true, Ordering::SeqCst) {
                rt.log(me, format!("lock {}", m.site));
                break;
            }
            rt.block(me, Res::Mutex(m.id), None);
        }
        (MutexGuard { m, panicking_at_lock: false }, w)
    }

    pub fn wait<'a, T>(&self, guard: MutexGuard<'a, T>) -> LockResult<MutexGuard<'a, T>> {
        let (g, _) = self.wait_inner(guard, None);
        Ok(g)
    }

    pub fn wait_timeout<'a, T>(&self, guard: MutexGuard<'a, T>, dur: Duration) -> LockResult<(MutexGuard<'a, T>, WaitTimeoutResult)> {
        let (g, w) = self.wait_inner(guard, Some(dur));
        Ok((g, WaitTimeoutResult(w == Wake::Timeout)))
    }

    /// as std: waits until `condition` is false (it is evaluated with the mutex held)
    pub fn wait_while<'a, T, F>(&self, mut guard: MutexGuard<'a, T>, mut condition: F) -> LockResult<MutexGuard<'a, T>>
    where
        F: FnMut(&mut T) -> bool,
    {
        while condition(&mut *guard) {
            guard = self.wait(guard)?;
        }
        Ok(guard)
    }

    /// as std: waits until `condition` is false or `dur` has gone by
    pub fn wait_timeout_while<'a, T, F>(&self, mut guard: MutexGuard<'a, T>, dur: Duration, mut condition: F) -> LockResult<(MutexGuard<'a, T>, WaitTimeoutResult)>
    where
        F: FnMut(&mut T) -> bool,
    {
        let start = crate::time::Instant::now();
        loop {
            if !condition(&mut *guard) {
                return Ok((guard, WaitTimeoutResult(false)));
            }
            let timeout = match dur.checked_sub(start.elapsed()) {
                Some(t) => t,
                None => return Ok((guard, WaitTimeoutResult(true))),
            };
            guard = self.wait_timeout(guard, timeout)?.0;
        }
    }

    pub fn notify_one(&self) {
        let (rt, me) = current();
        let mut g = rt.inner.lock().unwrap();
        let waiters = g.blocked_on(&Res::Condvar(self.id));
        if waiters.is_empty() {
            g.log(me, format!("notify_one {} none", self.site));
        } else {
            let k = g.below(waiters.len());
            let w = waiters[k];
            g.wake(w, Wake::Notified);
            g.log(me, format!("notify_one {} t{}", self.site, w));
        }
    }

    pub fn notify_all(&self) {
        let (rt, me) = current();
        let mut g = rt.inner.lock().unwrap();
        let ws = g.wake_all_on(&Res::Condvar(self.id), Wake::Notified);
        g.log(me, format!("notify_all {} {:?}", self.site, ws));
    }
}

// ---------------------------------------------------------------------------------------------
// mpsc

pub mod mpsc {
    use super::*;
    pub use std::sync::mpsc::{RecvError, RecvTimeoutError, SendError, TryRecvError};

    struct Chan<T> {
        id: usize,
        q: std::sync::Mutex<VecDeque<T>>,
        senders: AtomicUsize,
        receiver_alive: AtomicBool,
    }

    pub struct Sender<T> {
        c: Arc<Chan<T>>,
    }
    pub struct Receiver<T> {
        c: Arc<Chan<T>>,
    }

    unsafe impl<T: Send> Send for Sender<T> {}
    unsafe impl<T: Send> Sync for Sender<T> {}
    unsafe impl<T: Send> Send for Receiver<T> {}

    pub fn channel<T>() -> (Sender<T>, Receiver<T>) {
        let c = Arc::new(Chan { id: fresh_id(), q: std::sync::Mutex::new(VecDeque::new()), senders: AtomicUsize::new(1), receiver_alive: AtomicBool::new(true) });
        (Sender { c: c.clone() }, Receiver { c })
    }

    impl<T> Clone for Sender<T> {
        fn clone(&self) -> Self {
            self.c.senders.fetch_add(1, Ordering::SeqCst);
            Sender { c: self.c.clone() }
        }
    }

    impl<T> Drop for Sender<T> {
        fn drop(&mut self) {
            if self.c.senders.fetch_sub(1, Ordering::SeqCst) == 1 {
                // last sender gone: a blocked receiver must see the disconnection
                if let Some((rt, _)) = crate::sched::try_current() {
                    let mut g = rt.inner.lock().unwrap();
                    g.wake_all_on(&Res::Chan(self.c.id), Wake::Ready);
                }
            }
        }
    }

    impl<T> Drop for Receiver<T> {
        fn drop(&mut self) {
            self.c.receiver_alive.store(false, Ordering::SeqCst);
        }
    }

    impl<T> Sender<T> {
        pub fn send(&self, t: T) -> Result<(), SendError<T>> {
            let (rt, me) = current();
            rt.yield_point(me);
            if !self.c.receiver_alive.load(Ordering::SeqCst) {
                return Err(SendError(t));
            }
            self.c.q.lock().unwrap().push_back(t);
            let mut g = rt.inner.lock().unwrap();
            g.wake_all_on(&Res::Chan(self.c.id), Wake::Ready);
            Ok(())
        }
    }

    impl<T> Receiver<T> {
        pub fn try_recv(&self) -> Result<T, TryRecvError> {
            let (rt, me) = current();
            rt.yield_point(me);
            if let Some(v) = self.c.q.lock().unwrap().pop_front() {
                return Ok(v);
            }
            if self.c.senders.load(Ordering::SeqCst) == 0 {
                Err(TryRecvError::Disconnected)
            } else {
                Err(TryRecvError::Empty)
            }
        }

        pub fn recv(&self) -> Result<T, RecvError> {
            let (rt, me) = current();
            rt.yield_point(me);
            loop {
                if let Some(v) = self.c.q.lock().unwrap().pop_front() {
                    return Ok(v);
                }
                if self.c.senders.load(Ordering::SeqCst) == 0 {
                    return Err(RecvError);
                }
                rt.block(me, Res::Chan(self.c.id), None);
            }
        }

        pub fn recv_timeout(&self, d: Duration) -> Result<T, RecvTimeoutError> {
            let (rt, me) = current();
            rt.yield_point(me);
            let deadline = rt.now().saturating_add(crate::sched::nanos_sat(d));
            loop {
                if let Some(v) = self.c.q.lock().unwrap().pop_front() {
                    return Ok(v);
                }
                if self.c.senders.load(Ordering::SeqCst) == 0 {
                    return Err(RecvTimeoutError::Disconnected);
                }
                if rt.now() >= deadline {
                    return Err(RecvTimeoutError::Timeout);
                }
                rt.block(me, Res::Chan(self.c.id), Some(deadline));
            }
        }

        pub fn iter(&self) -> Iter<'_, T> {
            Iter { rx: self }
        }
    }

    pub struct Iter<'a, T> {
        rx: &'a Receiver<T>,
    }
    impl<'a, T> Iterator for Iter<'a, T> {
        type Item = T;
        fn next(&mut self) -> Option<T> {
            self.rx.recv().ok()
        }
    }
}

#[allow(dead_code)]
fn _assert(_: TState) {}
