//! verif_rt — a controllable runtime behind a std-shaped facade.
//!
//! `verif_rt::stdx` is `pub use std::*` with four modules overridden (`sync` — including
//! `sync::atomic::AtomicBool` —, `thread`, `time`, `net`); a copy of tiny-http's sources in which the path root `std::` is replaced by
//! `verif_rt::stdx::` therefore runs, unmodified otherwise, under the deterministic scheduler,
//! the virtual clock and the in-memory network of this crate.
pub mod atomic;
pub mod net;
pub mod sched;
pub mod sync;
pub mod thread;
pub mod time;

pub mod stdx {
    pub use std::*;

    pub mod sync {
        pub use crate::sync::{Condvar, Mutex, MutexGuard, WaitTimeoutResult};
        pub use std::sync::*;
        pub mod atomic {
            pub use crate::atomic::*;
        }
        pub mod mpsc {
            pub use crate::sync::mpsc::*;
        }
    }
    pub mod thread {
        pub use crate::thread::{sleep, spawn, yield_now, JoinHandle};
        pub use std::thread::*;
    }
    pub mod time {
        pub use crate::time::Instant;
        pub use std::time::*;
    }
    pub mod net {
        pub use crate::net::{TcpListener, TcpStream};
        pub use std::net::*;
    }
}
