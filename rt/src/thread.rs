//! `std::thread` look-alikes: spawn / JoinHandle / sleep / yield_now under the scheduler.
use crate::sched::{current, set_current, Res, TState};
use std::sync::{Arc, Mutex as StdMutex};
use std::time::Duration;

pub struct JoinHandle<T> {
    tid: usize,
    result: Arc<StdMutex<Option<std::thread::Result<T>>>>,
}

impl<T> JoinHandle<T> {
    pub fn join(self) -> std::thread::Result<T> {
        let (rt, me) = current();
        rt.yield_point(me);
        loop {
            if let Some(r) = self.result.lock().unwrap().take() {
                return r;
            }
            rt.block(me, Res::Join(self.tid), None);
        }
    }
    pub fn is_finished(&self) -> bool {
        self.result.lock().unwrap().is_some()
    }
    pub fn tid(&self) -> usize {
        self.tid
    }
}

pub fn spawn_named<F, T>(name: &str, f: F) -> JoinHandle<T>
where
    F: FnOnce() -> T + Send + 'static,
    T: Send + 'static,
{
    let (rt, me) = current();
    let tid = rt.register(name.to_string(), TState::Runnable);
    rt.log(me, format!("spawn t{} {}", tid, name));
    let result = Arc::new(StdMutex::new(None));
    let r2 = result.clone();
    let rt2 = rt.clone();
    std::thread::Builder::new()
        .stack_size(1 << 20)
        .spawn(move || {
            set_current(rt2.clone(), tid);
            rt2.wait_for_baton(tid);
            rt2.log(tid, "begin".into());
            let r = std::panic::catch_unwind(std::panic::AssertUnwindSafe(f));
            if r.is_err() {
                let mut g = rt2.inner.lock().unwrap();
                g.panics += 1;
                g.log(tid, "panic".into());
            }
            *r2.lock().unwrap() = Some(r);
            rt2.finish(tid);
        })
        .expect("spawn OS thread");
    // spawning is a scheduling point: the child may run first
    rt.yield_point(me);
    JoinHandle { tid, result }
}

#[track_caller]
pub fn spawn<F, T>(f: F) -> JoinHandle<T>
where
    F: FnOnce() -> T + Send + 'static,
    T: Send + 'static,
{
    let l = std::panic::Location::caller();
    let file = l.file().rsplit('/').next().unwrap_or("");
    spawn_named(&format!("{}:{}", file, l.line()), f)
}

pub fn sleep(d: Duration) {
    let (rt, me) = current();
    let deadline = rt.now().saturating_add(crate::sched::nanos_sat(d));
    rt.block(me, Res::Sleep, Some(deadline));
}

pub fn yield_now() {
    let (rt, me) = current();
    rt.yield_point(me);
}
